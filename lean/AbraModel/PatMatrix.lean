/-!
# M9 — `abra_core/src/statics/pat_exhaustiveness.rs`, function by function

Executable, import-free model of the usefulness / exhaustiveness algorithm (the Rust-compiler-style
matrix algorithm after Maranget) together with an independent value semantics of patterns.

* `Ty`, `EnumEnv`      — the type universe: bool, void, int, float, string, tuples, structs (field types
                          inline, monomorphic), enums (by id, looked up in an environment so that enums
                          may be recursive).  Generic type arguments, arrays, functions are not modelled.
* `Val`, `hasTy`       — the value universe.  `void` is the empty product; tuples and structs are
                          products; a variant carries its index and ONE payload value (void payload =
                          empty product, several fields = one product) — the code's run-time encoding.
* `Pat`, `pmatch`     — source patterns (`ast::PatKind`) and their meaning on values; this is the
                          specification side and never mentions matrices.
* `DPat`, `Ctor`, `fromAst`, `dmatch` — `DeconstructedPat`, `Constructor`, `from_ast_pat` (with the
                          code's encoding of multi-field variants as one tuple field and the erasure of
                          void payloads) and the meaning of deconstructed patterns / witnesses.
* `specialize`, `expandOrRow`, `unspecialize`, `split`, `applyConstructor`,
  `applyMissingConstructors`, `compute` — `Matrix::specialize`, `MatrixRow::expand_or_pats`,
  `Matrix::unspecialize`, `ConstructorSet::split`, `WitnessMatrix::*`,
  `compute_exhaustiveness_and_usefulness`.  The recursion takes fuel; `fuelFor` always suffices
  (`C12_terminates` in `AbraProofs/Properties/C12.lean`).
* `check`              — `match_expr_exhaustive_check`: witnesses (first column) and the per-arm
                          `useful` flags.

Float literal constructors carry the parsed bit pattern (the repaired behaviour of D15: `1.0` and
`1.00` are the same constructor); ints are unbounded `Int` and float bits unbounded `Nat` in the value
universe (the 64-bit ranges are a side condition of the harness' universe, see C12 `level_note`).
-/
namespace Abra.PatMatrix

/-! ## Types and values -/

inductive Ty where
  | bool | void | int | float | string
  | tuple (ts : List Ty)
  | struct (id : Nat) (fields : List Ty)
  | enum (id : Nat)
  deriving Repr, Inhabited

/-- enum id ↦ variants, each variant = the list of its field types (0, 1 or several) -/
abbrev EnumEnv := Nat → List (List Ty)

def Ty.isVoid : Ty → Bool
  | .void => true
  | _ => false

/-- `data_ty_of_variant` -/
def dataTyOfFields : List Ty → Ty
  | [] => .void
  | [t] => t
  | t :: u :: ts => .tuple (t :: u :: ts)

/-- the field types of variant `idx` of enum `eid` (`none`: no such variant) -/
def variantFields (env : EnumEnv) (eid idx : Nat) : Option (List Ty) := (env eid)[idx]?

def dataTyOpt : Option (List Ty) → Ty
  | some fs => dataTyOfFields fs
  | none => .void

def dataTy (env : EnumEnv) (eid idx : Nat) : Ty := dataTyOpt (variantFields env eid idx)

inductive Val where
  | bool (b : Bool)
  | int (i : Int)
  | float (bits : Nat)
  | str (s : List UInt8)
  | prod (vs : List Val)
  | variant (idx : Nat) (payload : Val)
  deriving Repr, Inhabited

mutual
  /-- well-typed values (`env` gives the enum definitions) -/
  def hasTy (env : EnumEnv) : Val → Ty → Bool
    | .bool _, .bool => true
    | .int _, .int => true
    | .float _, .float => true
    | .str _, .string => true
    | .prod [], .void => true
    | .prod vs, .tuple ts => hasTys env vs ts
    | .prod vs, .struct _ ts => hasTys env vs ts
    | .variant idx pl, .enum eid =>
      match variantFields env eid idx with
      | some fs => hasTy env pl (dataTyOfFields fs)
      | none => false
    | _, _ => false
  def hasTys (env : EnumEnv) : List Val → List Ty → Bool
    | [], [] => true
    | v :: vs, t :: ts => hasTy env v t && hasTys env vs ts
    | _, _ => false
end

/-! ## Source patterns and their meaning (specification side) -/

/-- `ast::PatKind`.  Struct patterns and named variant fields are given in declaration order (the
    harness orders named fields; `from_ast_pat` and the code generator both order them by `find`). -/
inductive Pat where
  | wild
  | bind (x : Nat)
  | bool (b : Bool)
  | int (i : Int)
  | float (bits : Nat)
  | str (s : List UInt8)
  | void
  | tuple (ps : List Pat)
  | struct (id : Nat) (ps : List Pat)
  /-- `.V` -/
  | variant0 (eid idx : Nat)
  /-- `.V(p)`; `.V(p, q)` is `.V((p, q))` as in the parser -/
  | variantPos (eid idx : Nat) (p : Pat)
  /-- `.V(a = p, b = q)` in declaration order -/
  | variantNamed (eid idx : Nat) (ps : List Pat)
  | or (l r : Pat)
  deriving Repr, Inhabited

mutual
  /-- does value `v` match source pattern `p`?  (run-time meaning, independent of the checker) -/
  def pmatch : Pat → Val → Bool
    | .wild, _ => true
    | .bind _, _ => true
    | .bool b, .bool b' => b == b'
    | .int i, .int i' => i == i'
    | .float f, .float f' => f == f'
    | .str s, .str s' => s == s'
    | .void, .prod [] => true
    | .tuple ps, .prod vs => pmatchAll ps vs
    | .struct _ ps, .prod vs => pmatchAll ps vs
    | .variant0 _ idx, .variant idx' _ => idx == idx'
    | .variantPos _ idx p, .variant idx' pl => idx == idx' && pmatch p pl
    | .variantNamed _ idx ps, .variant idx' pl =>
      idx == idx' && pmatchNamed ps pl
    | .or l r, v => pmatch l v || pmatch r v
    | _, _ => false
  def pmatchAll : List Pat → List Val → Bool
    | [], [] => true
    | p :: ps, v :: vs => pmatch p v && pmatchAll ps vs
    | _, _ => false
  /-- named fields against the single payload value: one field = the payload itself, several = a
      product -/
  def pmatchNamed : List Pat → Val → Bool
    | [], _ => true
    | [p], v => pmatch p v
    | p :: q :: ps, .prod vs => pmatchAll (p :: q :: ps) vs
    | _, _ => false
end

mutual
  /-- does the pattern have type `ty`?  (what the type checker guarantees before the exhaustiveness
      pass runs: literal kinds fit, products have the right number of components, a variant pattern
      without data is only accepted for a variant without payload or with a `void` payload) -/
  def patTyped (env : EnumEnv) : Pat → Ty → Bool
    | .wild, _ => true
    | .bind _, _ => true
    | .bool _, .bool => true
    | .int _, .int => true
    | .float _, .float => true
    | .str _, .string => true
    | .void, .void => true
    | .tuple ps, .tuple ts => patsTyped env ps ts
    | .struct id ps, .struct id' ts => id == id' && patsTyped env ps ts
    | .variant0 e i, .enum e' =>
      e == e' && (variantFields env e i).isSome && (dataTy env e i).isVoid
    | .variantPos e i p, .enum e' =>
      e == e' && (variantFields env e i).isSome && patTyped env p (dataTy env e i)
    | .variantNamed e i ps, .enum e' =>
      e == e' && (variantFields env e i).isSome &&
        patsTyped env ps ((variantFields env e i).getD []) && !ps.isEmpty
    | .or l r, t => patTyped env l t && patTyped env r t
    | _, _ => false
  def patsTyped (env : EnumEnv) : List Pat → List Ty → Bool
    | [], [] => true
    | p :: ps, t :: ts => patTyped env p t && patsTyped env ps ts
    | _, _ => false
end

/-! ## Deconstructed patterns -/

inductive WReason where
  | user | varPat | nonExh | spec
  deriving Repr, DecidableEq, Inhabited

inductive Ctor where
  | wild (r : WReason)
  | bool (b : Bool)
  | int (i : Int)
  | float (bits : Nat)
  | str (s : List UInt8)
  | product
  | variant (eid idx : Nat)
  | or
  deriving Repr, DecidableEq, Inhabited

def Ctor.isWild : Ctor → Bool
  | .wild _ => true
  | _ => false

def Ctor.isOr : Ctor → Bool
  | .or => true
  | _ => false

inductive DPat where
  | mk (ctor : Ctor) (fields : List DPat) (ty : Ty)
  deriving Repr, Inhabited

def DPat.ctor : DPat → Ctor
  | .mk c _ _ => c
def DPat.fields : DPat → List DPat
  | .mk _ fs _ => fs
def DPat.ty : DPat → Ty
  | .mk _ _ t => t

def wildOf (r : WReason) (ty : Ty) : DPat := .mk (.wild r) [] ty

mutual
  /-- meaning of a deconstructed pattern (also used for witnesses).  A variant pattern without
      fields says nothing about the payload (erased void payload / witness for a missing variant). -/
  def dmatch : DPat → Val → Bool
    | .mk (.wild _) _ _, _ => true
    | .mk (.bool b) _ _, .bool b' => b == b'
    | .mk (.int i) _ _, .int i' => i == i'
    | .mk (.float f) _ _, .float f' => f == f'
    | .mk (.str s) _ _, .str s' => s == s'
    | .mk .product fs _, .prod vs => dmatchAll fs vs
    | .mk (.variant _ idx) fs _, .variant idx' pl =>
      idx == idx' && (fs.isEmpty || dmatchAll fs [pl])
    | .mk .or fs _, v => dmatchAny fs v
    | _, _ => false
  def dmatchAll : List DPat → List Val → Bool
    | [], [] => true
    | p :: ps, v :: vs => dmatch p v && dmatchAll ps vs
    | _, _ => false
  def dmatchAny : List DPat → Val → Bool
    | [], _ => false
    | p :: ps, v => dmatch p v || dmatchAny ps v
end

/-- field types of a product type -/
def productTys : Ty → List Ty
  | .tuple ts => ts
  | .struct _ ts => ts
  | _ => []

mutual
  /-- `DeconstructedPat::from_ast_pat`; `ty` is the solved type of the pattern node -/
  def fromAst (env : EnumEnv) : Ty → Pat → DPat
    | ty, .wild => .mk (.wild .user) [] ty
    | ty, .bind _ => .mk (.wild .varPat) [] ty
    | ty, .bool b => .mk (.bool b) [] ty
    | ty, .int i => .mk (.int i) [] ty
    | ty, .float f => .mk (.float f) [] ty
    | ty, .str s => .mk (.str s) [] ty
    | ty, .void => .mk .product [] ty
    | ty, .tuple ps => .mk .product (fromAsts env (productTys ty) ps) ty
    | ty, .struct _ ps => .mk .product (fromAsts env (productTys ty) ps) ty
    | ty, .variant0 eid idx => .mk (.variant eid idx) [] ty
    | ty, .variantPos eid idx p =>
      -- repaired behaviour (D31): a void payload is erased here as it is for one named field
      let d := dataTy env eid idx
      if d.isVoid then .mk (.variant eid idx) [] ty
      else .mk (.variant eid idx) [fromAst env d p] ty
    | ty, .variantNamed eid idx ps =>
      let ftys := (variantFields env eid idx).getD []
      let ordered := fromAsts env ftys ps
      match ordered with
      | [f] => if f.ty.isVoid then .mk (.variant eid idx) [] ty else .mk (.variant eid idx) [f] ty
      | _ => .mk (.variant eid idx) [.mk .product ordered (.tuple (ordered.map DPat.ty))] ty
    | ty, .or l r => .mk .or [fromAst env ty l, fromAst env ty r] ty
  def fromAsts (env : EnumEnv) : List Ty → List Pat → List DPat
    | t :: ts, p :: ps => fromAst env t p :: fromAsts env ts ps
    | [], p :: ps => fromAst env .void p :: fromAsts env [] ps
    | _, [] => []
end

/-! ## Constructors -/

/-- `Constructor::is_covered_by` (incompatible pairs, where the code panics, give `false`; they do
    not occur for well-typed patterns) -/
def Ctor.isCoveredBy : Ctor → Ctor → Bool
  | _, .wild _ => true
  | .wild _, _ => false
  | .bool a, .bool b => a == b
  | .variant e i, .variant e' i' => e == e' && i == i'
  | .int a, .int b => a == b
  | .float a, .float b => a == b
  | .str a, .str b => a == b
  | .product, .product => true
  | _, _ => false

/-- arity of a variant constructor: a void payload and a missing payload both have arity 0; several
    fields are one tuple -/
def arityOfFields : List Ty → Nat
  | [] => 0
  | [t] => if t.isVoid then 0 else 1
  | _ :: _ :: _ => 1

def arityOpt : Option (List Ty) → Nat
  | none => 0
  | some fs => arityOfFields fs

def variantArity (env : EnumEnv) (eid idx : Nat) : Nat := arityOpt (variantFields env eid idx)

/-- `Constructor::arity` (first matrix type `ty`) -/
def Ctor.arity (env : EnumEnv) (ty : Ty) : Ctor → Nat
  | .product => (productTys ty).length
  | .variant eid idx => variantArity env eid idx
  | _ => 0

/-- the types `Matrix::specialize` pushes in front for constructor `c` at head type `ty` -/
def specTys (env : EnumEnv) (ty : Ty) : Ctor → List Ty
  | .product => productTys ty
  | .variant eid idx =>
    let d := dataTy env eid idx
    if d.isVoid then [] else [d]
  | _ => []

/-- `DeconstructedPat::field_tys` -/
def fieldTys (env : EnumEnv) (ty : Ty) (c : Ctor) : List Ty :=
  match ty with
  | .tuple ts => ts
  | .struct _ ts => if c == .product then ts else []
  | .enum _ =>
    match c with
    | .variant eid idx =>
      let d := dataTy env eid idx
      if d.isVoid then [] else [d]
    | _ => []
  | _ => []

/-- `DeconstructedPat::specialize` -/
def DPat.specialize (env : EnumEnv) (p : DPat) (c : Ctor) (arity : Nat) : List DPat :=
  match p.ctor with
  | .wild _ =>
    let ftys := fieldTys env p.ty c
    (List.range arity).map (fun i => wildOf .spec (ftys.getD i .void))
  | _ => p.fields

/-! ## Matrix rows -/

structure Row where
  pats : List DPat
  parent : Nat
  deriving Repr, Inhabited

def Row.headCtor (r : Row) : Ctor :=
  match r.pats with
  | p :: _ => p.ctor
  | [] => .wild .user

mutual
  /-- the alternatives of a (possibly nested) or-pattern at the head of a row, left to right -/
  def expandPat : DPat → List DPat
    | .mk .or fs _ => expandPats fs
    | p => [p]
  def expandPats : List DPat → List DPat
    | [] => []
    | p :: ps => expandPat p ++ expandPats ps
end

/-- `MatrixRow::expand_or_pats` -/
def expandOrRow (r : Row) : List Row :=
  match r.pats with
  | p :: rest => (expandPat p).map (fun h => { pats := h :: rest, parent := r.parent })
  | [] => [r]

/-- `Matrix::specialize(Constructor::Or)`: every row is replaced by its alternatives, `parent_row`
    = index of the row they come from -/
def specializeOrAux : Nat → List Row → List Row
  | _, [] => []
  | i, r :: rs => (expandOrRow r).map (fun e => { e with parent := i }) ++ specializeOrAux (i + 1) rs

def specializeOr (rows : List Row) : List Row := specializeOrAux 0 rows

/-- `MatrixRow::pop_head` -/
def popHead (env : EnumEnv) (r : Row) (c : Ctor) (arity parent : Nat) : Row :=
  match r.pats with
  | p :: rest => { pats := p.specialize env c arity ++ rest, parent := parent }
  | [] => { pats := [], parent := parent }

/-- `Matrix::specialize` for a constructor other than `Or` (no row has an or-pattern at its head
    when this is called, so `expand_or_pats` is the identity and row indices are those of `rows`) -/
def specializeAux (env : EnumEnv) (c : Ctor) (arity : Nat) : Nat → List Row → List Row
  | _, [] => []
  | i, r :: rs =>
    if c.isCoveredBy r.headCtor then
      popHead env r c arity i :: specializeAux env c arity (i + 1) rs
    else specializeAux env c arity (i + 1) rs

def specialize (env : EnumEnv) (c : Ctor) (arity : Nat) (rows : List Row) : List Row :=
  specializeAux env c arity 0 rows

/-- `Matrix::unspecialize`: `parent.useful |= child.useful` -/
def unspecialize : List Bool → List Row → List Bool → List Bool
  | flags, r :: rs, u :: us =>
    unspecialize (flags.set r.parent (flags.getD r.parent false || u)) rs us
  | flags, _, _ => flags

/-! ## Constructor sets -/

inductive CtorSet where
  | bool
  | enumVariants (eid : Nat) (n : Nat)
  | product
  | unlistable
  deriving Repr

/-- `ctors_for_ty` -/
def ctorsForTy (env : EnumEnv) : Ty → CtorSet
  | .bool => .bool
  | .enum eid => .enumVariants eid (env eid).length
  | .tuple _ => .product
  | .struct _ _ => .product
  | .void => .product
  | .int => .unlistable
  | .float => .unlistable
  | .string => .unlistable

/-- variants in order of first appearance among the head constructors -/
def presentVariants (eid n : Nat) : List Ctor → List Nat → List Nat
  | [], acc => acc.reverse
  | .variant e i :: cs, acc =>
    if e == eid && i < n && !acc.contains i then presentVariants eid n cs (i :: acc)
    else presentVariants eid n cs acc
  | _ :: cs, acc => presentVariants eid n cs acc

/-- `ConstructorSet::split` → (present, missing).  The code iterates a hash set for the missing
    variants; the model lists them by index (the harness compares witnesses as sorted lists). -/
def split (s : CtorSet) (heads : List Ctor) : List Ctor × List Ctor :=
  match s with
  | .product => if heads.isEmpty then ([], [.product]) else ([.product], [])
  | .enumVariants eid n =>
    let pres := presentVariants eid n heads []
    (pres.map (Ctor.variant eid),
     ((List.range n).filter (fun i => !pres.contains i)).map (Ctor.variant eid))
  | .bool =>
    let seenF := heads.contains (.bool false)
    let seenT := heads.contains (.bool true)
    ((if seenF then [Ctor.bool false] else []) ++ (if seenT then [Ctor.bool true] else []),
     (if seenF then [] else [Ctor.bool false]) ++ (if seenT then [] else [Ctor.bool true]))
  | .unlistable =>
    (heads, if heads.any Ctor.isWild then [] else [.wild .nonExh])

/-! ## Witnesses (rows are stacks: the LAST element belongs to the first column) -/

/-- `WitnessMatrix::apply_constructor` -/
def applyConstructor (c : Ctor) (arity : Nat) (headTy : Ty) (w : List (List DPat)) :
    List (List DPat) :=
  w.map (fun row =>
    let keep := row.take (row.length - arity)
    let fields := (row.drop (row.length - arity)).reverse
    keep ++ [DPat.mk c fields headTy])

/-- `DeconstructedPat::missing_from_ctor`: a missing product gets one wildcard per component, a
    missing variant one wildcard for its payload unless the payload type is `void` -/
def missingFromCtor (env : EnumEnv) (c : Ctor) (ty : Ty) : DPat :=
  match ty with
  | .struct _ ts => if c == .product then .mk c (ts.map (wildOf .nonExh)) ty else .mk c [] ty
  | .tuple ts => .mk c (ts.map (wildOf .nonExh)) ty
  | .enum _ =>
    match c with
    | .variant e i =>
      let d := dataTy env e i
      if d.isVoid then .mk c [] ty else .mk c [wildOf .nonExh d] ty
    | _ => .mk c [] ty
  | _ => .mk c [] ty

/-- `WitnessMatrix::apply_missing_constructors` -/
def applyMissing (env : EnumEnv) (missing : List Ctor) (headTy : Ty) (w : List (List DPat)) : List (List DPat) :=
  if missing.isEmpty then w
  else missing.flatMap (fun c => w.map (fun row => row ++ [missingFromCtor env c headTy]))

/-! ## The algorithm -/

abbrev Result := List Bool × List (List DPat)

def baseFlags (n : Nat) : List Bool := (List.range n).map (fun i => i == 0)

def Ctor.isNonExh : Ctor → Bool
  | .wild .nonExh => true
  | _ => false

/-- one iteration of `for ctor in present_ctors { … }`; `rec` is the recursive call -/
def stepCtor (env : EnumEnv) (rec : List Ty → List Row → Option Result)
    (headTy : Ty) (restTys : List Ty) (rows : List Row) (missing : List Ctor)
    (acc : Result) (c : Ctor) : Option Result :=
  let arity := c.arity env headTy
  let spec := specialize env c arity rows
  match rec (specTys env headTy c ++ restTys) spec with
  | none => none
  | some (cf, w) =>
    let w' := if c.isNonExh then applyMissing env missing headTy w else applyConstructor c arity headTy w
    some (unspecialize acc.1 spec cf, acc.2 ++ w')

def foldCtors (step : Result → Ctor → Option Result) : Result → List Ctor → Option Result
  | acc, [] => some acc
  | acc, c :: cs =>
    match step acc c with
    | none => none
    | some acc' => foldCtors step acc' cs

/-- `compute_exhaustiveness_and_usefulness`; `none` = out of fuel.  Returns the `useful` flag of every
    row (all start `false`) and the witness matrix. -/
def compute (env : EnumEnv) : Nat → List Ty → List Row → Option Result
  | 0, _, _ => none
  | _ + 1, [], rows => some (baseFlags rows.length, if rows.isEmpty then [[]] else [])
  | fuel + 1, headTy :: restTys, rows =>
    if rows.any (fun r => r.headCtor.isOr) then
      let spec := specializeOr rows
      match compute env fuel (headTy :: restTys) spec with
      | none => none
      | some (cf, w) => some (unspecialize (List.replicate rows.length false) spec cf, w)
    else
      let heads := rows.map Row.headCtor
      let sp := split (ctorsForTy env headTy) heads
      -- special constructor representing cases not listed by user
      let present := if sp.2.isEmpty then sp.1 else sp.1 ++ [.wild .nonExh]
      foldCtors (stepCtor env (compute env fuel) headTy restTys rows sp.2)
        (List.replicate rows.length false, []) present

/-- `Matrix::new` -/
def initRows : Nat → List DPat → List Row
  | _, [] => []
  | i, p :: ps => { pats := [p], parent := i } :: initRows (i + 1) ps

/-! ## Termination measure: fuel that always suffices

`phi = 2 * (A + B) + C` strictly decreases at every recursive call of `compute` (proved in
`AbraProofs/Lemmas/PatMatrixTerm.lean`), so `fuelFor = phi + 1` is enough:
`A` = over all rows and all or-free expansions of a row, the node weights (variant node:
1 + nesting of its payload type; other constructor nodes: 1; wildcards: 0); `B` = product nesting of
the column types; `C` = 1 if some row has an or-pattern at its head. -/

mutual
  /-- nesting of product types (the only types a wildcard is expanded along) -/
  def tyDepth : Ty → Nat
    | .tuple ts => 1 + tyDepths ts
    | .struct _ ts => 1 + tyDepths ts
    | _ => 1
  def tyDepths : List Ty → Nat
    | [] => 0
    | t :: ts => tyDepth t + tyDepths ts
end

mutual
  /-- number of or-free expansions -/
  def nx : DPat → Nat
    | .mk .or fs _ => nxSum fs
    | .mk (.wild _) _ _ => 1
    | .mk (.bool _) fs _ => nxProd fs
    | .mk (.int _) fs _ => nxProd fs
    | .mk (.float _) fs _ => nxProd fs
    | .mk (.str _) fs _ => nxProd fs
    | .mk .product fs _ => nxProd fs
    | .mk (.variant _ _) fs _ => nxProd fs
  def nxSum : List DPat → Nat
    | [] => 0
    | p :: ps => nx p + nxSum ps
  def nxProd : List DPat → Nat
    | [] => 1
    | p :: ps => nx p * nxProd ps
end

/-- weight of a constructor node -/
def nodeW (env : EnumEnv) : Ctor → Nat
  | .variant e i => 1 + tyDepth (dataTy env e i)
  | _ => 1

mutual
  /-- total node weight over all or-free expansions -/
  def tw (env : EnumEnv) : DPat → Nat
    | .mk .or fs _ => twSum env fs
    | .mk (.wild _) _ _ => 0
    | .mk (.bool b) fs _ => nodeW env (.bool b) * nxProd fs + twProd env fs
    | .mk (.int b) fs _ => nodeW env (.int b) * nxProd fs + twProd env fs
    | .mk (.float b) fs _ => nodeW env (.float b) * nxProd fs + twProd env fs
    | .mk (.str b) fs _ => nodeW env (.str b) * nxProd fs + twProd env fs
    | .mk .product fs _ => nodeW env .product * nxProd fs + twProd env fs
    | .mk (.variant e i) fs _ => nodeW env (.variant e i) * nxProd fs + twProd env fs
  def twSum (env : EnumEnv) : List DPat → Nat
    | [] => 0
    | p :: ps => tw env p + twSum env ps
  def twProd (env : EnumEnv) : List DPat → Nat
    | [] => 0
    | p :: ps => tw env p * nxProd ps + nx p * twProd env ps
end

def rowsA (env : EnumEnv) : List Row → Nat
  | [] => 0
  | r :: rs => twProd env r.pats + rowsA env rs

def orHeads (rows : List Row) : Nat := if rows.any (fun r => r.headCtor.isOr) then 1 else 0

def phi (env : EnumEnv) (Ts : List Ty) (rows : List Row) : Nat :=
  2 * (rowsA env rows + tyDepths Ts) + orHeads rows

/-- the fuel the driver uses -/
def fuelFor (env : EnumEnv) (ty : Ty) (pats : List DPat) : Nat := phi env [ty] (initRows 0 pats) + 1

/-- `match_expr_exhaustive_check` on deconstructed patterns: (useful flags, witnesses) -/
def checkD (env : EnumEnv) (fuel : Nat) (ty : Ty) (pats : List DPat) : Option (List Bool × List DPat) :=
  match compute env fuel [ty] (initRows 0 pats) with
  | none => none
  | some (flags, w) => some (flags, w.filterMap List.head?)

/-- the whole check on source arms -/
def check (env : EnumEnv) (fuel : Nat) (ty : Ty) (arms : List Pat) : Option (List Bool × List DPat) :=
  checkD env fuel ty (arms.map (fromAst env ty))

/-- `let pat = …` / `var pat = …` / `for pat in …`: the pattern is checked like the single arm of a
    match on the bound value's type (repaired behaviour of D96: a refutable pattern is rejected);
    `true` = accepted -/
def checkLet (env : EnumEnv) (fuel : Nat) (ty : Ty) (p : Pat) : Option Bool :=
  (check env fuel ty [p]).map (fun r => r.2.isEmpty)

end Abra.PatMatrix
