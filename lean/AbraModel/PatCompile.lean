import AbraModel.PatMatrix
/-!
# M8 (pattern part) — `translate_bytecode.rs`: comparison and binding code for patterns

Follows `translate_pat_comparison`, `translate_product_pat_comparison`, `traverse_arm_pat`,
`handle_pat_binding` and the `ExprKind::Match` arm of `translate_expr`, instruction by instruction,
as the code is (including the shared `or_pat_decisions` set of the arm loop, D27), with the repaired
behaviour of the defects whose fixes are in flight (D46, D47; marked where they apply).

* `SVal`, `repr`      — run-time values and the representation of a typed value: `void` components are
                         not stored in tuples/structs; a variant holds its tag and ONE payload (no
                         field or one void field: `nil`; one field: that value; several declared
                         fields: a struct of the non-void ones — repaired behaviour of D46).
* `Instr`, `step`, `run` — the emitted instructions and their meaning.  All jumps in this code are forward,
                         so a jump is executed by *skipping* instructions until its label: the machine
                         state carries `skip : Option Label`, and `run` is a left fold of `step` over the
                         code (`List.foldlM`), which makes code concatenation compositional.
* labels              — `make_label` produces globally fresh names; the model names a label by the path of
                         the pattern node that creates it plus a kind, so freshness is structural.
* `cmp`, `prodCode`, `cmpElems` — `translate_pat_comparison`, `translate_product_pat_comparison`
* `traverse`          — `traverse_arm_pat` (is some or-pattern still on its left alternative?)
* `bind`              — `handle_pat_binding`
* `matchCode`         — the `ExprKind::Match` code: one comparison pass per round of the decision loop,
                         then one labelled body per pass.
-/
namespace Abra.PatCompile
open Abra.PatMatrix

/-! ## Run-time values -/

inductive SVal where
  | bool (b : Bool)
  | int (i : Int)
  | float (bits : Nat)
  | str (s : List UInt8)
  | struct (fs : List SVal)
  | variant (tag : Nat) (payload : SVal)
  | nil
  deriving Repr, Inhabited, BEq

/-- payload of a variant that declares SEVERAL fields, `nonvoid` = its non-void argument values.
    Repaired behaviour (D46): always a struct, which is what the pattern code deconstructs.  (The
    unrepaired constructor counts only non-void arguments: one → the bare value, none → `nil`.) -/
def payloadOf (nonvoid : List SVal) : SVal := .struct nonvoid

mutual
  /-- representation of a value of a non-void type -/
  def repr (env : EnumEnv) : Ty → Val → SVal
    | _, .bool b => .bool b
    | _, .int i => .int i
    | _, .float f => .float f
    | _, .str s => .str s
    | ty, .prod vs => .struct (reprFields env (productTys ty) vs)
    | .enum e, .variant idx pl =>
      match (variantFields env e idx).getD [] with
      | [] => .variant idx .nil
      | [t] => .variant idx (if t.isVoid then .nil else repr env t pl)
      | t :: u :: ts =>
        match pl with
        | .prod vs => .variant idx (payloadOf (reprFields env (t :: u :: ts) vs))
        | _ => .variant idx .nil
    | _, .variant idx _ => .variant idx .nil
  /-- the stored fields: void components are skipped -/
  def reprFields (env : EnumEnv) : List Ty → List Val → List SVal
    | t :: ts, v :: vs => if t.isVoid then reprFields env ts vs else repr env t v :: reprFields env ts vs
    | _, _ => []
end

/-! ## Instructions -/

structure Label where
  path : List Nat
  kind : Nat
  deriving Repr, DecidableEq, Inhabited

inductive Instr where
  | pop
  | dup
  | pushBool (b : Bool)
  | pushInt (i : Int)
  | pushFloat (f : Nat)
  | pushStr (s : List UInt8)
  | eqInt | eqFloat | eqBool | eqStr
  | deconStruct
  | deconVariant
  | jump (l : Label)
  | jumpIf (l : Label)
  | jumpIfFalse (l : Label)
  | label (l : Label)
  | store (slot : Nat)
  /-- the arm body (`translate_stmt(&arm.stmt)`), abstract: records which pass' body runs -/
  | enter (pass : Nat)
  deriving Repr, DecidableEq, Inhabited

structure St where
  stack : List SVal
  locals : List (Nat × SVal)
  taken : Option Nat
  skip : Option Label
  deriving Repr, Inhabited

/-- one instruction; `none` = VM fault (wrong tag on the stack, empty stack) -/
def step (st : St) (i : Instr) : Option St :=
  match st.skip with
  | some l => if i = .label l then some { st with skip := none } else some st
  | none =>
    match i, st.stack with
    | .pop, _ :: s => some { st with stack := s }
    | .dup, x :: s => some { st with stack := x :: x :: s }
    | .pushBool b, s => some { st with stack := .bool b :: s }
    | .pushInt n, s => some { st with stack := .int n :: s }
    | .pushFloat f, s => some { st with stack := .float f :: s }
    | .pushStr x, s => some { st with stack := .str x :: s }
    | .eqInt, .int b :: .int a :: s => some { st with stack := .bool (a == b) :: s }
    | .eqFloat, .float b :: .float a :: s => some { st with stack := .bool (a == b) :: s }
    | .eqBool, .bool b :: .bool a :: s => some { st with stack := .bool (a == b) :: s }
    | .eqStr, .str b :: .str a :: s => some { st with stack := .bool (a == b) :: s }
    | .deconStruct, .struct fs :: s => some { st with stack := fs ++ s }
    | .deconVariant, .variant tag pl :: s => some { st with stack := .int tag :: pl :: s }
    | .jump l, _ => some { st with skip := some l }
    | .jumpIf l, .bool b :: s => some { st with stack := s, skip := if b then some l else none }
    | .jumpIfFalse l, .bool b :: s => some { st with stack := s, skip := if b then none else some l }
    | .label _, _ => some st
    | .store slot, x :: s => some { st with stack := s, locals := (slot, x) :: st.locals }
    | .enter k, _ => some { st with taken := some k }
    | _, _ => none

/-- run a code sequence -/
def run (code : List Instr) (st : St) : Option St := code.foldlM step st

/-! ## Comparison code -/

abbrev Path := List Nat

def lblTagFail (π : Path) : Label := ⟨π, 0⟩
def lblEndVariant (π : Path) : Label := ⟨π, 1⟩
def lblSuccess (π : Path) : Label := ⟨π, 2⟩
def lblEndTuple (π : Path) : Label := ⟨π, 3⟩
def lblFail (π : Path) (i : Nat) : Label := ⟨π, 4 + i⟩

/-- `FAILURE CASE` of `translate_product_pat_comparison`: `label fail_0; (pop?) label fail_1; …` -/
def failChain (π : Path) : Nat → List Ty → List Instr
  | _, [] => []
  | i, t :: ts => (if t.isVoid then [] else [Instr.pop]) ++ [.label (lblFail π i)] ++ failChain π (i + 1) ts

/-- `translate_product_pat_comparison` around the element loop `elems` -/
def prodCode (π : Path) (tys : List Ty) (ps : List Pat) (elems : List Instr × List Path) (D : List Path) :
    List Instr × List Path :=
  if ps.isEmpty then ([.pop, .pushBool true], D)
  else
    ([.deconStruct] ++ elems.1 ++
      [.label (lblSuccess π), .pushBool true, .jump (lblEndTuple π), .label (lblFail π 0)] ++
      failChain π 1 (tys.drop 1) ++ [.pushBool false, .label (lblEndTuple π)], elems.2)

mutual
  /-- `translate_pat_comparison`; returns the code and the updated decision set -/
  def cmp (env : EnumEnv) : Path → Ty → Pat → List Path → List Instr × List Path
    | _, ty, .wild, D => ((if ty.isVoid then [] else [.pop]) ++ [.pushBool true], D)
    | _, ty, .bind _, D => ((if ty.isVoid then [] else [.pop]) ++ [.pushBool true], D)
    | _, ty, .void, D => ((if ty.isVoid then [] else [.pop]) ++ [.pushBool true], D)
    | π, ty, .or l r, D =>
      if D.contains π then cmp env (π ++ [1]) ty r D
      else
        let res := cmp env (π ++ [0]) ty l D
        (res.1, π :: res.2)
    | _, _, .int i, D => ([.pushInt i, .eqInt], D)
    | _, _, .float f, D => ([.pushFloat f, .eqFloat], D)
    | _, _, .bool b, D => ([.pushBool b, .eqBool], D)
    | _, _, .str s, D => ([.pushStr s, .eqStr], D)
    | π, ty, .tuple ps, D => prodCode π (productTys ty) ps (cmpElems env π 0 (productTys ty) ps D) D
    | π, ty, .struct _ ps, D => prodCode π (productTys ty) ps (cmpElems env π 0 (productTys ty) ps D) D
    | π, _, .variant0 _ idx, D =>
      ([.deconVariant, .pushInt idx, .eqInt, .jumpIfFalse (lblTagFail π),
        .pop, .pushBool true, .jump (lblEndVariant π),
        .label (lblTagFail π), .pop, .pushBool false, .label (lblEndVariant π)], D)
    | π, _, .variantPos e idx p, D =>
      let innerTy := dataTy env e idx
      if innerTy.isVoid then
        ([.deconVariant, .pushInt idx, .eqInt, .jumpIfFalse (lblTagFail π),
          .pop, .pushBool true, .jump (lblEndVariant π),
          .label (lblTagFail π), .pop, .pushBool false, .label (lblEndVariant π)], D)
      else
        let res := cmp env (π ++ [0]) innerTy p D
        ([.deconVariant, .pushInt idx, .eqInt, .jumpIfFalse (lblTagFail π)] ++ res.1 ++
          [.jump (lblEndVariant π), .label (lblTagFail π), .pop, .pushBool false, .label (lblEndVariant π)],
         res.2)
    | π, _, .variantNamed e idx ps, D =>
      let ftys := (variantFields env e idx).getD []
      if ps.length == 1 then
        let t := ftys.headD .void
        if t.isVoid then
          ([.deconVariant, .pushInt idx, .eqInt, .jumpIfFalse (lblTagFail π),
            .pop, .pushBool true, .jump (lblEndVariant π),
            .label (lblTagFail π), .pop, .pushBool false, .label (lblEndVariant π)], D)
        else
          let res := cmpFirst env π t ps D
          ([.deconVariant, .pushInt idx, .eqInt, .jumpIfFalse (lblTagFail π)] ++ res.1 ++
            [.jump (lblEndVariant π), .label (lblTagFail π), .pop, .pushBool false, .label (lblEndVariant π)],
           res.2)
      else
        let res := prodCode π ftys ps (cmpElems env π 0 ftys ps D) D
        ([.deconVariant, .pushInt idx, .eqInt, .jumpIfFalse (lblTagFail π)] ++ res.1 ++
          [.jump (lblEndVariant π), .label (lblTagFail π), .pop, .pushBool false, .label (lblEndVariant π)],
         res.2)
  /-- the single named field `pats[0]` -/
  def cmpFirst (env : EnumEnv) : Path → Ty → List Pat → List Path → List Instr × List Path
    | π, t, p :: _, D => cmp env (π ++ [0]) t p D
    | _, _, [], D => ([], D)
  /-- the loop over the elements: compare, `JumpIfFalse fail_i`, after the last one `Jump success` -/
  def cmpElems (env : EnumEnv) : Path → Nat → List Ty → List Pat → List Path → List Instr × List Path
    | _, _, _, [], D => ([], D)
    | π, i, tys, p :: ps, D =>
      let res := cmp env (π ++ [i]) (tys.headD .void) p D
      let rest := cmpElems env π (i + 1) (tys.drop 1) ps res.2
      (res.1 ++ [.jumpIfFalse (lblFail π i)] ++ (if ps.isEmpty then [.jump (lblSuccess π)] else []) ++ rest.1,
       rest.2)
end

/-! ## `traverse_arm_pat` -/

mutual
  /-- does the walk (under the current decisions) pass an or-pattern on its left alternative?
      Repaired behaviour (D47): a void-typed single inner pattern is skipped, exactly as
      `translate_pat_comparison` skips it (the unrepaired code tests the variant pattern's own type,
      walks into it, and the arm loop never ends when it contains an or-pattern). -/
  def traverse (env : EnumEnv) : Path → Pat → List Path → Bool
    | π, .tuple ps, D => traverseList env π 0 ps D
    | π, .struct _ ps, D => traverseList env π 0 ps D
    | π, .variantPos e idx p, D =>
      if (dataTy env e idx).isVoid then false else traverse env (π ++ [0]) p D
    | π, .variantNamed e idx ps, D =>
      if ps.length == 1 then
        if (((variantFields env e idx).getD []).headD .void).isVoid then false else traverseList env π 0 ps D
      else traverseList env π 0 ps D
    | π, .or l r, D =>
      if D.contains π then traverse env (π ++ [1]) r D
      else
        let _ := traverse env (π ++ [0]) l D
        true
    | _, _, _ => false
  def traverseList (env : EnumEnv) : Path → Nat → List Pat → List Path → Bool
    | _, _, [], _ => false
    | π, i, p :: ps, D =>
      let a := traverse env (π ++ [i]) p D
      let b := traverseList env π (i + 1) ps D
      a || b
end

/-! ## Binding code -/

mutual
  /-- `handle_pat_binding` -/
  def bind (env : EnumEnv) : Path → Ty → Pat → List Path → List Instr × List Path
    | _, ty, .bind x, D => (if ty.isVoid then [] else [.store x], D)
    | π, ty, .tuple ps, D =>
      let res := bindList env π 0 (productTys ty) ps D
      ([.deconStruct] ++ res.1, res.2)
    | π, ty, .struct _ ps, D =>
      let res := bindList env π 0 (productTys ty) ps D
      ([.deconStruct] ++ res.1, res.2)
    | _, _, .variant0 _ _, D => ([.pop], D)
    | π, _, .variantPos e idx p, D =>
      -- repaired behaviour (D47): a void payload is popped with the variant (`void_case`); the
      -- unrepaired code tests the variant pattern's own type and leaves the `nil` payload behind
      if (dataTy env e idx).isVoid then ([.pop], D)
      else
        let res := bind env (π ++ [0]) (dataTy env e idx) p D
        ([.deconVariant, .pop] ++ res.1, res.2)
    | π, _, .variantNamed e idx ps, D =>
      let ftys := (variantFields env e idx).getD []
      if ps.length == 1 then
        if (ftys.headD .void).isVoid then ([.pop], D)
        else
          let res := bindList env π 0 ftys ps D
          ([.deconVariant, .pop] ++ res.1, res.2)
      else
        let res := bindList env π 0 ftys ps D
        ([.deconVariant, .pop, .deconStruct] ++ res.1, res.2)
    | π, ty, .or l r, D =>
      if D.contains π then bind env (π ++ [1]) ty r D
      else
        let res := bind env (π ++ [0]) ty l D
        (res.1, π :: res.2)
    | _, _, .void, D => ([], D)
    | _, ty, .wild, D => (if ty.isVoid then [] else [.pop], D)
    | _, _, .bool _, D => ([.pop], D)
    | _, _, .int _, D => ([.pop], D)
    | _, _, .float _, D => ([.pop], D)
    | _, _, .str _, D => ([.pop], D)
  def bindList (env : EnumEnv) : Path → Nat → List Ty → List Pat → List Path → List Instr × List Path
    | _, _, _, [], D => ([], D)
    | π, i, tys, p :: ps, D =>
      let res := bind env (π ++ [i]) (tys.headD .void) p D
      let rest := bindList env π (i + 1) (tys.drop 1) ps res.2
      (res.1 ++ rest.1, rest.2)
end

/-! ## The match expression -/

def lblArm (pass : Nat) : Label := ⟨[], 100 + pass⟩
def lblEndMatch : Label := ⟨[], 99⟩

mutual
  /-- number of or-patterns in a pattern (bounds the rounds of the decision loop) -/
  def orCount : Pat → Nat
    | .or l r => 1 + orCount l + orCount r
    | .tuple ps => orCountList ps
    | .struct _ ps => orCountList ps
    | .variantPos _ _ p => orCount p
    | .variantNamed _ _ ps => orCountList ps
    | _ => 0
  def orCountList : List Pat → Nat
    | [] => 0
    | p :: ps => orCount p + orCountList ps
end

/-- the `loop { … if !went_left { break } }` of one arm: for every pass the decision set it was
    compiled under and its comparison code, and the decision set afterwards; `pass` numbers the passes
    globally -/
def armPasses (env : EnumEnv) (ty : Ty) (a : Nat) (p : Pat) :
    Nat → Nat → List Path → List (List Path × List Instr) × List Path
  | 0, _, D => ([], D)
  | fuel + 1, pass, D =>
    let wentLeft := traverse env [a] p D
    let res := cmp env [a] ty p D
    let code := [Instr.dup] ++ res.1 ++ [.jumpIf (lblArm pass)]
    if wentLeft then
      let rest := armPasses env ty a p fuel (pass + 1) res.2
      ((D, code) :: rest.1, rest.2)
    else ([(D, code)], res.2)

/-- comparison part of the match: all passes of all arms as (arm index, decisions, code) -/
def allPasses (env : EnumEnv) (ty : Ty) : Nat → List Pat → Nat → List Path → List (Nat × List Path × List Instr)
  | _, [], _, _ => []
  | a, p :: ps, pass, D =>
    let res := armPasses env ty a p (orCount p + 1) pass D
    (res.1.map (fun c => (a, c))) ++ allPasses env ty (a + 1) ps (pass + res.1.length) res.2

/-- bodies: `label arm; handle_pat_binding; body; jump end` per pass, decisions shared (fresh set) -/
def bodies (env : EnumEnv) (ty : Ty) (arms : List Pat) :
    Nat → List (Nat × List Path × List Instr) → List Path → List Instr
  | _, [], _ => []
  | pass, (a, _) :: rest, D =>
    let res := bind env [a] ty (arms.getD a .wild) D
    [.label (lblArm pass)] ++ res.1 ++ [.enter pass] ++
      (if rest.isEmpty then [] else [.jump lblEndMatch]) ++ bodies env ty arms (pass + 1) rest res.2

/-- `ExprKind::Match`: the code after the scrutinee has been pushed; also the arm of every pass -/
def matchCode (env : EnumEnv) (ty : Ty) (arms : List Pat) : List Instr × List Nat :=
  let passes := allPasses env ty 0 arms 0 []
  (passes.flatMap (fun x => x.2.2) ++ bodies env ty arms 0 passes [] ++ [.label lblEndMatch],
   passes.map (fun x => x.1))

/-- run the match on a value: (arm taken, pass taken, bindings as stored, final stack) -/
def runMatch (env : EnumEnv) (ty : Ty) (arms : List Pat) (v : Val) (below : List SVal) :
    Option (Option Nat × Option Nat × List (Nat × SVal) × List SVal) :=
  let mc := matchCode env ty arms
  let st0 : St := { stack := (if ty.isVoid then below else repr env ty v :: below), locals := [], taken := none, skip := none }
  match run mc.1 st0 with
  | none => none
  | some st => some (st.taken.map (fun k => mc.2.getD k 0), st.taken, st.locals, st.stack)

/-- `let pat = value` / `for pat in …`: `handle_pat_binding` with a fresh decision set -/
def runLet (env : EnumEnv) (ty : Ty) (p : Pat) (v : Val) (below : List SVal) :
    Option (List (Nat × SVal) × List SVal) :=
  let st0 : St := { stack := (if ty.isVoid then below else repr env ty v :: below), locals := [], taken := none, skip := none }
  match run (bind env [0] ty p []).1 st0 with
  | none => none
  | some st => some (st.locals, st.stack)

end Abra.PatCompile
