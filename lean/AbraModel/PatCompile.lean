import AbraModel.PatMatrix
/-!
# M8 (pattern part) — `translate_bytecode.rs`: comparison and binding code for patterns

Follows `translate_pat_comparison`, `translate_product_pat_comparison`, `traverse_arm_pat`,
`handle_pat_binding` and the `ExprKind::Match` arm of `translate_expr`, instruction by instruction,
as the code is after the repairs D27 (the arm loop enumerates every combination of or-pattern
alternatives like a binary counter; decision sets are read-only while code is emitted), D46 and D47.

* `SVal`, `repr`      — run-time values and the representation of a typed value: `void` components are
                         not stored in tuples/structs; a variant holds its tag and ONE payload (no
                         field or one void field: `nil`; one field: that value; several declared
                         fields: a struct of the non-void ones — repaired behaviour of D46).
* `Instr`, `step`, `run` — the emitted instructions and their meaning.  All jumps in this code are forward,
                         so a jump is executed by *skipping* instructions until its label: the machine
                         state carries `skip : Option Label`, and `run` is a left fold of `step` over the
                         code (`List.foldlM`), which makes code concatenation compositional.
* labels              — `make_label` produces globally fresh names; the model names a label by the path of
                         the pattern node that creates it plus a kind, so freshness is structural.
* `cmp`, `prodCode`, `cmpElems` — `translate_pat_comparison`, `translate_product_pat_comparison`
* `traverse`          — `traverse_arm_pat` (the or-patterns reached under the current decisions, in order)
* `bind`              — `handle_pat_binding`
* `lastLeft`, `nextDecisions`, `armPasses` — the binary-counter loop of one arm
* `matchCode`         — the `ExprKind::Match` code: one comparison pass per combination, then one
                         labelled body per pass (bound under the decisions of that pass).
-/
namespace Abra.PatCompile
open Abra.PatMatrix

/-! ## Run-time values -/

inductive SVal where
  | bool (b : Bool)
  | int (i : Int)
  | float (bits : Nat)
  | str (s : List UInt8)
  | struct (fs : List SVal)
  | variant (tag : Nat) (payload : SVal)
  | nil
  deriving Repr, Inhabited, BEq

/-- payload of a variant that declares SEVERAL fields, `nonvoid` = its non-void argument values.
    Repaired behaviour (D46): always a struct, which is what the pattern code deconstructs.  (The
    unrepaired constructor counts only non-void arguments: one → the bare value, none → `nil`.) -/
def payloadOf (nonvoid : List SVal) : SVal := .struct nonvoid

mutual
  /-- representation of a value of a non-void type -/
  def repr (env : EnumEnv) : Ty → Val → SVal
    | _, .bool b => .bool b
    | _, .int i => .int i
    | _, .float f => .float f
    | _, .str s => .str s
    | ty, .prod vs => .struct (reprFields env (productTys ty) vs)
    | .enum e, .variant idx pl =>
      match (variantFields env e idx).getD [] with
      | [] => .variant idx .nil
      | [t] => .variant idx (if t.isVoid then .nil else repr env t pl)
      | t :: u :: ts =>
        match pl with
        | .prod vs => .variant idx (payloadOf (reprFields env (t :: u :: ts) vs))
        | _ => .variant idx .nil
    | _, .variant idx _ => .variant idx .nil
  /-- the stored fields: void components are skipped -/
  def reprFields (env : EnumEnv) : List Ty → List Val → List SVal
    | t :: ts, v :: vs => if t.isVoid then reprFields env ts vs else repr env t v :: reprFields env ts vs
    | _, _ => []
end

/-! ## Instructions -/

structure Label where
  path : List Nat
  kind : Nat
  deriving Repr, DecidableEq, Inhabited

inductive Instr where
  | pop
  | dup
  | pushBool (b : Bool)
  | pushInt (i : Int)
  | pushFloat (f : Nat)
  | pushStr (s : List UInt8)
  | eqInt | eqFloat | eqBool | eqStr
  | deconStruct
  | deconVariant
  | jump (l : Label)
  | jumpIf (l : Label)
  | jumpIfFalse (l : Label)
  | label (l : Label)
  | store (slot : Nat)
  /-- the arm body (`translate_stmt(&arm.stmt)`), abstract: records which pass' body runs -/
  | enter (pass : Nat)
  deriving Repr, DecidableEq, Inhabited

structure St where
  stack : List SVal
  locals : List (Nat × SVal)
  taken : Option Nat
  skip : Option Label
  deriving Repr, Inhabited

/-- one instruction; `none` = VM fault (wrong tag on the stack, empty stack) -/
def step (st : St) (i : Instr) : Option St :=
  match st.skip with
  | some l => if i = .label l then some { st with skip := none } else some st
  | none =>
    match i, st.stack with
    | .pop, _ :: s => some { st with stack := s }
    | .dup, x :: s => some { st with stack := x :: x :: s }
    | .pushBool b, s => some { st with stack := .bool b :: s }
    | .pushInt n, s => some { st with stack := .int n :: s }
    | .pushFloat f, s => some { st with stack := .float f :: s }
    | .pushStr x, s => some { st with stack := .str x :: s }
    | .eqInt, .int b :: .int a :: s => some { st with stack := .bool (a == b) :: s }
    | .eqFloat, .float b :: .float a :: s => some { st with stack := .bool (a == b) :: s }
    | .eqBool, .bool b :: .bool a :: s => some { st with stack := .bool (a == b) :: s }
    | .eqStr, .str b :: .str a :: s => some { st with stack := .bool (a == b) :: s }
    | .deconStruct, .struct fs :: s => some { st with stack := fs ++ s }
    | .deconVariant, .variant tag pl :: s => some { st with stack := .int tag :: pl :: s }
    | .jump l, _ => some { st with skip := some l }
    | .jumpIf l, .bool b :: s => some { st with stack := s, skip := if b then some l else none }
    | .jumpIfFalse l, .bool b :: s => some { st with stack := s, skip := if b then none else some l }
    | .label _, _ => some st
    | .store slot, x :: s => some { st with stack := s, locals := (slot, x) :: st.locals }
    | .enter k, _ => some { st with taken := some k }
    | _, _ => none

/-- run a code sequence -/
def run (code : List Instr) (st : St) : Option St := code.foldlM step st

/-! ## Comparison code -/

abbrev Path := List Nat

def lblTagFail (π : Path) : Label := ⟨π, 0⟩
def lblEndVariant (π : Path) : Label := ⟨π, 1⟩
def lblSuccess (π : Path) : Label := ⟨π, 2⟩
def lblEndTuple (π : Path) : Label := ⟨π, 3⟩
def lblFail (π : Path) (i : Nat) : Label := ⟨π, 4 + i⟩

/-- `FAILURE CASE` of `translate_product_pat_comparison`: `label fail_0; (pop?) label fail_1; …` -/
def failChain (π : Path) : Nat → List Ty → List Instr
  | _, [] => []
  | i, t :: ts => (if t.isVoid then [] else [Instr.pop]) ++ [.label (lblFail π i)] ++ failChain π (i + 1) ts

/-- `translate_product_pat_comparison` around the element loop `elems` -/
def prodCode (π : Path) (tys : List Ty) (ps : List Pat) (elems : List Instr) : List Instr :=
  if ps.isEmpty then [.pop, .pushBool true]
  else
    [.deconStruct] ++ elems ++
      [.label (lblSuccess π), .pushBool true, .jump (lblEndTuple π), .label (lblFail π 0)] ++
      failChain π 1 (tys.drop 1) ++ [.pushBool false, .label (lblEndTuple π)]

/-- the code shared by every variant pattern whose payload is not looked at -/
def voidCase (π : Path) (idx : Nat) : List Instr :=
  [.deconVariant, .pushInt idx, .eqInt, .jumpIfFalse (lblTagFail π),
   .pop, .pushBool true, .jump (lblEndVariant π),
   .label (lblTagFail π), .pop, .pushBool false, .label (lblEndVariant π)]

/-- tag test around the comparison of the payload -/
def variantWrap (π : Path) (idx : Nat) (inner : List Instr) : List Instr :=
  [.deconVariant, .pushInt idx, .eqInt, .jumpIfFalse (lblTagFail π)] ++ inner ++
    [.jump (lblEndVariant π), .label (lblTagFail π), .pop, .pushBool false, .label (lblEndVariant π)]

mutual
  /-- `translate_pat_comparison`; the decision set `D` (the or-patterns that are on their right
      alternative) is only read -/
  def cmp (env : EnumEnv) : Path → Ty → Pat → List Path → List Instr
    | _, ty, .wild, _ => (if ty.isVoid then [] else [.pop]) ++ [.pushBool true]
    | _, ty, .bind _, _ => (if ty.isVoid then [] else [.pop]) ++ [.pushBool true]
    | _, ty, .void, _ => (if ty.isVoid then [] else [.pop]) ++ [.pushBool true]
    | π, ty, .or l r, D =>
      if D.contains π then cmp env (π ++ [1]) ty r D else cmp env (π ++ [0]) ty l D
    | _, _, .int i, _ => [.pushInt i, .eqInt]
    | _, _, .float f, _ => [.pushFloat f, .eqFloat]
    | _, _, .bool b, _ => [.pushBool b, .eqBool]
    | _, _, .str s, _ => [.pushStr s, .eqStr]
    | π, ty, .tuple ps, D => prodCode π (productTys ty) ps (cmpElems env π 0 (productTys ty) ps D)
    | π, ty, .struct _ ps, D => prodCode π (productTys ty) ps (cmpElems env π 0 (productTys ty) ps D)
    | π, _, .variant0 _ idx, _ => voidCase π idx
    | π, _, .variantPos e idx p, D =>
      let innerTy := dataTy env e idx
      if innerTy.isVoid then voidCase π idx
      else variantWrap π idx (cmp env (π ++ [0]) innerTy p D)
    | π, _, .variantNamed e idx ps, D =>
      let ftys := (variantFields env e idx).getD []
      if ps.length == 1 then
        let t := ftys.headD .void
        if t.isVoid then voidCase π idx
        else variantWrap π idx (cmpFirst env π t ps D)
      else variantWrap π idx (prodCode π ftys ps (cmpElems env π 0 ftys ps D))
  /-- the single named field `pats[0]` -/
  def cmpFirst (env : EnumEnv) : Path → Ty → List Pat → List Path → List Instr
    | π, t, p :: _, D => cmp env (π ++ [0]) t p D
    | _, _, [], _ => []
  /-- the loop over the elements: compare, `JumpIfFalse fail_i`, after the last one `Jump success` -/
  def cmpElems (env : EnumEnv) : Path → Nat → List Ty → List Pat → List Path → List Instr
    | _, _, _, [], _ => []
    | π, i, tys, p :: ps, D =>
      cmp env (π ++ [i]) (tys.headD .void) p D ++ [.jumpIfFalse (lblFail π i)] ++
        (if ps.isEmpty then [.jump (lblSuccess π)] else []) ++ cmpElems env π (i + 1) (tys.drop 1) ps D
end

/-! ## `traverse_arm_pat` -/

mutual
  /-- the or-patterns reached under the current decisions, left to right (a void-typed single inner
      pattern is skipped, exactly as `translate_pat_comparison` skips it) -/
  def traverse (env : EnumEnv) : Path → Pat → List Path → List Path
    | π, .tuple ps, D => traverseList env π 0 ps D
    | π, .struct _ ps, D => traverseList env π 0 ps D
    | π, .variantPos e idx p, D =>
      if (dataTy env e idx).isVoid then [] else traverse env (π ++ [0]) p D
    | π, .variantNamed e idx ps, D =>
      if ps.length == 1 then
        if (((variantFields env e idx).getD []).headD .void).isVoid then [] else traverseList env π 0 ps D
      else traverseList env π 0 ps D
    | π, .or l r, D =>
      π :: (if D.contains π then traverse env (π ++ [1]) r D else traverse env (π ++ [0]) l D)
    | _, .wild, _ => []
    | _, .bind _, _ => []
    | _, .bool _, _ => []
    | _, .int _, _ => []
    | _, .float _, _ => []
    | _, .str _, _ => []
    | _, .void, _ => []
    | _, .variant0 _ _, _ => []
  def traverseList (env : EnumEnv) : Path → Nat → List Pat → List Path → List Path
    | _, _, [], _ => []
    | π, i, p :: ps, D => traverse env (π ++ [i]) p D ++ traverseList env π (i + 1) ps D
end

/-! ## Binding code -/

mutual
  /-- `handle_pat_binding` (decisions read-only) -/
  def bind (env : EnumEnv) : Path → Ty → Pat → List Path → List Instr
    | _, ty, .bind x, _ => if ty.isVoid then [] else [.store x]
    | π, ty, .tuple ps, D => [.deconStruct] ++ bindList env π 0 (productTys ty) ps D
    | π, ty, .struct _ ps, D => [.deconStruct] ++ bindList env π 0 (productTys ty) ps D
    | _, _, .variant0 _ _, _ => [.pop]
    | π, _, .variantPos e idx p, D =>
      if (dataTy env e idx).isVoid then [.pop]
      else [.deconVariant, .pop] ++ bind env (π ++ [0]) (dataTy env e idx) p D
    | π, _, .variantNamed e idx ps, D =>
      let ftys := (variantFields env e idx).getD []
      if ps.length == 1 then
        if (ftys.headD .void).isVoid then [.pop]
        else [.deconVariant, .pop] ++ bindList env π 0 ftys ps D
      else [.deconVariant, .pop, .deconStruct] ++ bindList env π 0 ftys ps D
    | π, ty, .or l r, D =>
      if D.contains π then bind env (π ++ [1]) ty r D else bind env (π ++ [0]) ty l D
    | _, _, .void, _ => []
    | _, ty, .wild, _ => if ty.isVoid then [] else [.pop]
    | _, _, .bool _, _ => [.pop]
    | _, _, .int _, _ => [.pop]
    | _, _, .float _, _ => [.pop]
    | _, _, .str _, _ => [.pop]
  def bindList (env : EnumEnv) : Path → Nat → List Ty → List Pat → List Path → List Instr
    | _, _, _, [], _ => []
    | π, i, tys, p :: ps, D =>
      bind env (π ++ [i]) (tys.headD .void) p D ++ bindList env π (i + 1) (tys.drop 1) ps D
end

/-! ## The match expression -/

def lblArm (pass : Nat) : Label := ⟨[], 100 + pass⟩
def lblEndMatch : Label := ⟨[], 99⟩

mutual
  /-- number of or-patterns in a pattern (`2 ^ orCount` bounds the passes of the arm loop) -/
  def orCount : Pat → Nat
    | .or l r => 1 + orCount l + orCount r
    | .tuple ps => orCountList ps
    | .struct _ ps => orCountList ps
    | .variantPos _ _ p => orCount p
    | .variantNamed _ _ ps => orCountList ps
    | _ => 0
  def orCountList : List Pat → Nat
    | [] => 0
    | p :: ps => orCount p + orCountList ps
end

/-- `rposition(|or_pat| !or_pat_decisions.contains(or_pat))`: index of the last reached or-pattern
    that is still on its left alternative -/
def lastLeft : List Path → List Path → Option Nat
  | [], _ => none
  | π :: rest, D =>
    match lastLeft rest D with
    | some i => some (i + 1)
    | none => if D.contains π then none else some 0

/-- the binary-counter step: the or-pattern at `i` moves to its right alternative, the reached
    or-patterns after it start over (`insert`, then `remove` for each later one) -/
def nextDecisions (orPats : List Path) (i : Nat) (D : List Path) : List Path :=
  ((orPats.getD i []) :: D).filter (fun π => !(orPats.drop (i + 1)).contains π)

/-- the `loop { … }` of one arm: one pass per combination of alternatives; every pass records the
    decision set it was compiled under (the bindings are taken under the same set) -/
def armPasses (env : EnumEnv) (ty : Ty) (a : Nat) (p : Pat) : Nat → Nat → List Path → List (List Path × List Instr)
  | 0, _, _ => []
  | fuel + 1, pass, D =>
    let orPats := traverse env [a] p D
    let code := [Instr.dup] ++ cmp env [a] ty p D ++ [.jumpIf (lblArm pass)]
    match lastLeft orPats D with
    | none => [(D, code)]
    | some i => (D, code) :: armPasses env ty a p fuel (pass + 1) (nextDecisions orPats i D)

/-- comparison part of the match: all passes of all arms as (arm index, decisions, code); every arm
    starts from the empty decision set -/
def allPasses (env : EnumEnv) (ty : Ty) : Nat → List Pat → Nat → List (Nat × List Path × List Instr)
  | _, [], _ => []
  | a, p :: ps, pass =>
    let res := armPasses env ty a p (2 ^ orCount p) pass []
    (res.map (fun c => (a, c))) ++ allPasses env ty (a + 1) ps (pass + res.length)

/-- bodies: `label arm; handle_pat_binding (under the pass' decisions); body; jump end` per pass -/
def bodies (env : EnumEnv) (ty : Ty) (arms : List Pat) : Nat → List (Nat × List Path × List Instr) → List Instr
  | _, [] => []
  | pass, (a, D, _) :: rest =>
    [.label (lblArm pass)] ++ bind env [a] ty (arms.getD a .wild) D ++ [.enter pass] ++
      (if rest.isEmpty then [] else [.jump lblEndMatch]) ++ bodies env ty arms (pass + 1) rest

/-- `ExprKind::Match`: the code after the scrutinee has been pushed; also the arm of every pass -/
def matchCode (env : EnumEnv) (ty : Ty) (arms : List Pat) : List Instr × List Nat :=
  let passes := allPasses env ty 0 arms 0
  (passes.flatMap (fun x => x.2.2) ++ bodies env ty arms 0 passes ++ [.label lblEndMatch],
   passes.map (fun x => x.1))

/-- run the match on a value: (arm taken, pass taken, bindings as stored, final stack) -/
def runMatch (env : EnumEnv) (ty : Ty) (arms : List Pat) (v : Val) (below : List SVal) :
    Option (Option Nat × Option Nat × List (Nat × SVal) × List SVal) :=
  let mc := matchCode env ty arms
  let st0 : St := { stack := (if ty.isVoid then below else repr env ty v :: below), locals := [], taken := none, skip := none }
  match run mc.1 st0 with
  | none => none
  | some st => some (st.taken.map (fun k => mc.2.getD k 0), st.taken, st.locals, st.stack)

/-- the binding bodies of `bind_irrefutable_pat` after the untested last combination:
    `jump endbind; label bind_k; handle_pat_binding under combination k` for every tested one -/
def letBodies (env : EnumEnv) (ty : Ty) (p : Pat) : Nat → List (List Path × List Instr) → List Instr
  | _, [] => []
  | k, (D, _) :: rest =>
    [.jump lblEndMatch, .label (lblArm k)] ++ bind env [0] ty p D ++ letBodies env ty p (k + 1) rest

/-- `bind_irrefutable_pat` (`let` / `var` / `for`, after D103): the combinations of or-pattern
    alternatives are those of the arm loop (`or_pat_combinations` is shared with `match`); with a single
    combination, or a `void` value, the pattern is bound directly; otherwise every combination but
    the last is compared on a copy of the value (the code of a match pass) and the variables are
    bound under the first combination that matches, the last one untested.  The model reuses the
    match labels: `bind_k` = `lblArm k`, `endbind` = `lblEndMatch`. -/
def letCode (env : EnumEnv) (ty : Ty) (p : Pat) : List Instr :=
  let passes := armPasses env ty 0 p (2 ^ orCount p) 0 []
  if passes.length == 1 || ty.isVoid then bind env [0] ty p ((passes.head?.map (·.1)).getD [])
  else
    passes.dropLast.flatMap (·.2) ++ bind env [0] ty p ((passes.getLast?.map (·.1)).getD []) ++
      letBodies env ty p 0 passes.dropLast ++ [.label lblEndMatch]

/-- `let pat = value` / `for pat in …` -/
def runLet (env : EnumEnv) (ty : Ty) (p : Pat) (v : Val) (below : List SVal) :
    Option (List (Nat × SVal) × List SVal) :=
  let st0 : St := { stack := (if ty.isVoid then below else repr env ty v :: below), locals := [], taken := none, skip := none }
  match run (letCode env ty p) st0 with
  | none => none
  | some st => some (st.locals, st.stack)

end Abra.PatCompile
