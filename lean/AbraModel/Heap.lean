/-
M4 (values and heaps) for C08/C09: per-thread heaps, tagged values, `Value::deep_copy_helper` (vm.rs) as used by
`SpawnTask`, channel messages (snapshot at `ChannelWrite`, rebuilt at `ChannelRead`, fix 97d7808), thread teardown.

* An address is (thread id, index): every green thread allocates in its own heap (`heap_list`); the
  bytes of an object can be read through a raw pointer by any thread (`get_struct` etc. take the pointer
  from the `Value`, not from the thread), which is what `deep_copy_helper(&mut new_thread, …)` relies on.
* Objects are never collected in this model (collection is C06); a heap disappears as a whole when its
  thread is dropped (`impl Drop for VmGreenThread`).
* `deepCopyM` follows `Value::deep_copy_helper` (after fix 0cb8741 of defect D24): a map from the address
  of every source object copied so far to its copy; the copy is allocated with placeholder fields and
  recorded BEFORE its children are copied, then filled.  All captures of one `SpawnTask` share one map
  (`spawnCopy`); `deepCopy` is the copy of a single value with an empty map (a spawn with one capture; also the
  building block of `chanReceive` below).  Fuel stands for the host stack;
  the number of reachable source objects + 1 suffices (`deepCopyM_total`).  `none` is a fault: out of
  fuel, dangling pointer, or a tag that does not match the object.
  Two presentation choices, both invisible in the result: source objects are read from the heaps as they
  were when the copy started (`S`) — nothing but freshly allocated copies is written during a copy, so
  they are the same objects; and a copy's fields are written when the last child is done rather than one
  by one — nothing reads a copy while the operation runs.
-/
namespace Abra.Heap

structure Addr where
  tid : Nat
  idx : Nat
deriving DecidableEq, Repr

/-- `Value(u64, ValueTag)`: scalars carry their payload, the five pointer tags an address -/
inductive Val where
  | int (n : Int)
  | float (bits : Nat)
  | bool (b : Bool)
  | addr (pc : Nat)
  | struct (a : Addr)
  | array (a : Addr)
  | variant (a : Addr)
  | str (a : Addr)
  | chan (a : Addr)
deriving DecidableEq, Repr

inductive Obj where
  | struct (fields : List Val)
  | array (elems : List Val)
  | variant (tag : Nat) (v : Val)
  | str (bytes : List Nat)
  /-- `ChannelObject`: a handle on the shared queue `q` (identity of the `Arc`) -/
  | chan (q : Nat)
deriving DecidableEq, Repr

/-- all heaps, by owning thread -/
abbrev Heaps := Nat → List Obj

def lookup (H : Heaps) (a : Addr) : Option Obj := (H a.tid)[a.idx]?

/-- allocate in thread `t`'s heap (`heap_list.push`) -/
def alloc (H : Heaps) (t : Nat) (o : Obj) : Addr × Heaps :=
  (⟨t, (H t).length⟩, fun t' => if t' = t then H t ++ [o] else H t')

/-- `impl Drop for VmGreenThread`: every object of the thread is deallocated -/
def dropThread (H : Heaps) (t : Nat) : Heaps := fun t' => if t' = t then [] else H t'

/-- a store into a field of a struct / element of an array (`SetField`, `SetIdx`) -/
def setSlot (H : Heaps) (a : Addr) (i : Nat) (v : Val) : Heaps :=
  fun t' =>
    if t' = a.tid then
      match (H a.tid)[a.idx]? with
      | some (.struct fs) => (H a.tid).set a.idx (.struct (fs.set i v))
      | some (.array es) => (H a.tid).set a.idx (.array (es.set i v))
      | _ => H a.tid
    else H t'

/-- copy a list of values left to right, threading the heaps (the `for field in …` loops) -/
def copyListOld (cp : Heaps → Val → Option (Val × Heaps)) : Heaps → List Val → Option (List Val × Heaps)
  | H, [] => some ([], H)
  | H, v :: vs =>
    match cp H v with
    | none => none
    | some (v', H') =>
      match copyListOld cp H' vs with
      | none => none
      | some (vs', H'') => some (v' :: vs', H'')

/-- `Value::deep_copy(self, vm)` into thread `t`'s heap AS IT WAS BEFORE fix 0cb8741 (no map of copies:
    shared objects are copied once per reference, a cyclic value never finishes) — kept to document the
    pre-repair behaviour (`C08_deepcopy_prerepair_*`). -/
def deepCopyOld : Nat → Heaps → Nat → Val → Option (Val × Heaps)
  | 0, _, _, _ => none
  | f + 1, H, t, v =>
    match v with
    | .int _ | .float _ | .bool _ | .addr _ => some (v, H)
    | .struct a =>
      match lookup H a with
      | some (.struct fs) =>
        match copyListOld (fun H v => deepCopyOld f H t v) H fs with
        | some (fs', H') => some (.struct (alloc H' t (.struct fs')).1, (alloc H' t (.struct fs')).2)
        | none => none
      | _ => none
    | .array a =>
      match lookup H a with
      | some (.array es) =>
        match copyListOld (fun H v => deepCopyOld f H t v) H es with
        | some (es', H') => some (.array (alloc H' t (.array es')).1, (alloc H' t (.array es')).2)
        | none => none
      | _ => none
    | .variant a =>
      match lookup H a with
      | some (.variant tag x) =>
        match deepCopyOld f H t x with
        | some (x', H') => some (.variant (alloc H' t (.variant tag x')).1, (alloc H' t (.variant tag x')).2)
        | none => none
      | _ => none
    | .str a =>
      match lookup H a with
      | some (.str bs) => some (.str (alloc H t (.str bs)).1, (alloc H t (.str bs)).2)
      | _ => none
    | .chan a =>
      match lookup H a with
      -- `channel_obj.copy(vm)`: a new handle in the new thread's heap on the same queue
      | some (.chan q) => some (.chan (alloc H t (.chan q)).1, (alloc H t (.chan q)).2)
      | _ => none

/-- address-free rendering of a value (what a program can observe of it); channels by queue identity -/
inductive Tree where
  | int (n : Int)
  | float (bits : Nat)
  | bool (b : Bool)
  | addr (pc : Nat)
  | struct (fs : List Tree)
  | array (es : List Tree)
  | variant (tag : Nat) (t : Tree)
  | str (bytes : List Nat)
  | chan (q : Nat)
deriving Repr

def renderList (rd : Val → Option Tree) : List Val → Option (List Tree)
  | [] => some []
  | v :: vs =>
    match rd v with
    | none => none
    | some t =>
      match renderList rd vs with
      | none => none
      | some ts => some (t :: ts)

def render : Nat → Heaps → Val → Option Tree
  | 0, _, _ => none
  | f + 1, H, v =>
    match v with
    | .int n => some (.int n)
    | .float b => some (.float b)
    | .bool b => some (.bool b)
    | .addr p => some (.addr p)
    | .struct a =>
      match lookup H a with
      | some (.struct fs) => (renderList (render f H) fs).map .struct
      | _ => none
    | .array a =>
      match lookup H a with
      | some (.array es) => (renderList (render f H) es).map .array
      | _ => none
    | .variant a =>
      match lookup H a with
      | some (.variant tag x) => (render f H x).map (.variant tag)
      | _ => none
    | .str a =>
      match lookup H a with
      | some (.str bs) => some (.str bs)
      | _ => none
    | .chan a =>
      match lookup H a with
      | some (.chan q) => some (.chan q)
      | _ => none

def addrsList (ad : Val → Option (List Addr)) : List Val → Option (List Addr)
  | [] => some []
  | v :: vs =>
    match ad v with
    | none => none
    | some xs =>
      match addrsList ad vs with
      | none => none
      | some ys => some (xs ++ ys)

/-- every address reachable from a value (the object graph below it) -/
def addrs : Nat → Heaps → Val → Option (List Addr)
  | 0, _, _ => none
  | f + 1, H, v =>
    match v with
    | .int _ | .float _ | .bool _ | .addr _ => some []
    | .struct a =>
      match lookup H a with
      | some (.struct fs) => (addrsList (addrs f H) fs).map (a :: ·)
      | _ => none
    | .array a =>
      match lookup H a with
      | some (.array es) => (addrsList (addrs f H) es).map (a :: ·)
      | _ => none
    | .variant a =>
      match lookup H a with
      | some (.variant _ x) => (addrs f H x).map (a :: ·)
      | _ => none
    | .str a =>
      match lookup H a with
      | some (.str _) => some [a]
      | _ => none
    | .chan a =>
      match lookup H a with
      | some (.chan _) => some [a]
      | _ => none

/-! ### `deep_copy_helper` (after fix 0cb8741) -/

def ptr? : Val → Option Addr
  | .struct a | .array a | .variant a | .str a | .chan a => some a
  | _ => none

/-- the same tag on another address -/
def retag : Val → Addr → Val
  | .struct _, a => .struct a
  | .array _, a => .array a
  | .variant _, a => .variant a
  | .str _, a => .str a
  | .chan _, a => .chan a
  | v, _ => v

/-- does the tag of a pointer value match the kind of the object it points to (`check_type`) -/
def tagOk : Val → Obj → Bool
  | .struct _, .struct _ => true
  | .array _, .array _ => true
  | .variant _, .variant _ _ => true
  | .str _, .str _ => true
  | .chan _, .chan _ => true
  | _, _ => false

/-- the values an object holds -/
def Obj.kids : Obj → List Val
  | .struct fs => fs
  | .array es => es
  | .variant _ x => [x]
  | .str _ => []
  | .chan _ => []

/-- the same object with other values in its slots -/
def Obj.withKids : Obj → List Val → Obj
  | .struct _, ks => .struct ks
  | .array _, ks => .array ks
  | .variant tag _, ks => .variant tag (ks.headD (.int 0))
  | o, _ => o

/-- `copies: HashMap<u64, Value>`: address of a source object ↦ its copy -/
abbrev CopyMap := List (Addr × Val)

def mlookup (M : CopyMap) (a : Addr) : Option Val :=
  match M with
  | [] => none
  | (k, c) :: rest => if k = a then some c else mlookup rest a

/-- overwrite an object (filling a copy's placeholder slots) -/
def putObj (H : Heaps) (a : Addr) (o : Obj) : Heaps :=
  fun t' => if t' = a.tid then (H a.tid).set a.idx o else H t'

def copyListM (cp : Heaps → CopyMap → Val → Option (Val × Heaps × CopyMap)) :
    Heaps → CopyMap → List Val → Option (List Val × Heaps × CopyMap)
  | H, M, [] => some ([], H, M)
  | H, M, v :: vs =>
    match cp H M v with
    | none => none
    | some (v', H1, M1) =>
      match copyListM cp H1 M1 vs with
      | none => none
      | some (vs', H2, M2) => some (v' :: vs', H2, M2)

/-- `Value::deep_copy_helper(self, vm, copies)` into thread `t`'s heap; `S` = the heaps when the copy started -/
def deepCopyM : Nat → Heaps → Heaps → CopyMap → Nat → Val → Option (Val × Heaps × CopyMap)
  | 0, _, _, _, _, _ => none
  | f + 1, S, H, M, t, v =>
    match ptr? v with
    | none => some (v, H, M)
    | some a =>
      match mlookup M a with
      | some c => some (c, H, M)
      | none =>
        match lookup S a with
        | none => none
        | some obj =>
          if tagOk v obj then
            -- allocate the copy with placeholder slots and record it, then copy the children into it
            let al := alloc H t (obj.withKids (obj.kids.map fun _ => Val.int 0))
            match copyListM (fun H M w => deepCopyM f S H M t w) al.2 ((a, retag v al.1) :: M) obj.kids with
            | none => none
            | some (ks, H2, M2) => some (retag v al.1, putObj H2 al.1 (obj.withKids ks), M2)
          else none

/-- the copy of one value starting from an empty map (`SpawnTask` with a single capture; before fix 97d7808 this was
    `Value::deep_copy`, then also used by `ChannelRead` — see `chanReceiveOld`) -/
def deepCopy (fuel : Nat) (H : Heaps) (t : Nat) (v : Val) : Option (Val × Heaps) :=
  (deepCopyM fuel H H [] t v).map fun r => (r.1, r.2.1)

/-- `SpawnTask`: all captures are copied with ONE map, in order -/
def spawnCopy (fuel : Nat) (H : Heaps) (t : Nat) (caps : List Val) : Option (List Val × Heaps) :=
  (copyListM (fun H' M w => deepCopyM fuel H H' M t w) H [] caps).map fun r => (r.1, r.2.1)

/-! ### channel messages (after fix 97d7808 of defect D23)

`ChannelWrite` builds a `Message`: a snapshot of the written value taken AT WRITE TIME — one node per reachable
object in first-visit order, found through a table address ↦ node (sharing and cycles inside one message are
kept), plain data owned by the queue entry.  `ChannelRead` rebuilds it on the reader's heap (all objects
allocated first, in node order, then filled) and drops it.  A message therefore IS the reachable part of the
heaps as they were when it was written, and rebuilding it is the table-based copy `deepCopyM` reading its
sources from those heaps (`Hw`) and allocating in the heaps at read time (`Hr`) — in the same first-visit
order.  Nothing of `Hr` is read: what the writer did to its objects after the write, or whether the writer
still exists, cannot matter.  A channel inside a message is carried as the queue identity (an `Arc` clone). -/

/-- `ChannelWrite` of `v` under the heaps `Hw`, later `ChannelRead` by thread `t` under the heaps `Hr` -/
def chanReceive (fuel : Nat) (Hw Hr : Heaps) (t : Nat) (v : Val) : Option (Val × Heaps) :=
  (deepCopyM fuel Hw Hr [] t v).map fun r => (r.1, r.2.1)

/-- HISTORICAL: `ChannelRead` as it was before fix 97d7808 — the queue held the raw `Value` (a pointer into the
    writer's heap) and the copy was made at read time from whatever the heaps held then (defect D23). -/
def chanReceiveOld (fuel : Nat) (Hr : Heaps) (t : Nat) (v : Val) : Option (Val × Heaps) := deepCopy fuel Hr t v

end Abra.Heap
