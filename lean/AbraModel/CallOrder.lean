/-!
# M8 `callOrder` — named / default argument handling of the static front end

Follows `abra_core/src/statics/resolve.rs`:
* `update_function_arg_info`  → `mkInfo`   (`arg_indices : IdSet<String>`, `required_args : HashSet`,
  `default_args : HashMap<usize, _>`, `nargs`, `symbol_table`, `skip_self_argument`)
* `calculate_func_call_order` → `decide`   (the accept / reject decisions, in emission order)
* `calculate_named_arg_order` → `reorder`  (slot vector, defaults, `flatten`)

Names are an arbitrary type `ν` with decidable equality (the driver uses `String`), argument
expressions an arbitrary payload `α`.  D25 as repaired in /repo (93f0793): an unknown argument name is
a diagnostic and the reorder is skipped (`unknown_name_encountered`).  D26 as repaired (965042f): surplus
positional arguments are collected and reported once after the loop ("Too many arguments"), before the
missing-argument check, and the call is left un-reordered.
-/
namespace Abra.CallOrder

structure Param (ν : Type) where
  name : ν
  hasDefault : Bool
deriving Repr, DecidableEq

/-- one argument at a call site: `name = val` or just `val` -/
structure Arg (ν α : Type) where
  name : Option ν
  val : α
deriving Repr

/-- what is pushed for one parameter: an argument expression of the call, or default number `i` -/
inductive Entry (α : Type) where
  | arg (v : α)
  | dflt (i : Nat)
deriving Repr, DecidableEq

inductive Diag where
  | unknown    -- name is not a parameter           (`resolve_identifier` → UnresolvedIdentifier)
  | dup        -- "Can't specify a named argument more than once" (by name, or by name and position)
  | posAfter   -- "Can't use unnamed argument after named arguments, only before"
  | missing    -- "Missing argument(s): …"
  | surplus    -- "Too many arguments: expected at most …" (D26, repaired)
deriving Repr, DecidableEq

variable {ν : Type} [DecidableEq ν] {α : Type}

/-- `IdSet::insert`: ids are handed out in first-insertion order, re-insertion is a no-op -/
def idInsert (s : List ν) (x : ν) : List ν := if x ∈ s then s else s ++ [x]

/-- `IdSet::get_id` (`None` where the real code would panic) -/
def idIndex : List ν → ν → Option Nat
  | [], _ => none
  | y :: ys, x => if y = x then some 0 else (idIndex ys x).map (· + 1)

/-- `HashSet::insert` on a list without duplicates -/
def setInsert (s : List ν) (x : ν) : List ν := if x ∈ s then s else x :: s

/-- `HashSet::remove` -/
def setRemove (s : List ν) (x : ν) : List ν := s.filter (· ≠ x)

/-- `FuncArgDetails` -/
structure Info (ν : Type) where
  symbols : List ν        -- keys of `symbol_table`
  argIndices : List ν     -- `IdSet`: position = id
  required : List ν       -- `required_args`
  defaults : List Nat     -- keys of `default_args`
  nargs : Nat
deriving Repr

def mkInfoAux : Nat → List (Param ν) → Info ν → Info ν
  | _, [], acc => acc
  | i, p :: ps, acc =>
    let acc := { acc with symbols := p.name :: acc.symbols, argIndices := idInsert acc.argIndices p.name }
    let acc := if p.hasDefault then { acc with defaults := acc.defaults ++ [i] }
               else { acc with required := setInsert acc.required p.name }
    mkInfoAux (i + 1) ps acc

/-- `update_function_arg_info`; `skipSelf` is the caller's `has_self` -/
def mkInfo (skipSelf : Bool) (ps : List (Param ν)) : Info ν :=
  let entries := if skipSelf then ps.drop 1 else ps
  let acc := mkInfoAux 0 entries { symbols := [], argIndices := [], required := [], defaults := [], nargs := 0 }
  { acc with nargs := acc.required.length + acc.defaults.length }

/-- loop state of `calculate_func_call_order` -/
structure St (ν : Type) where
  named : Bool
  unknown : Bool          -- `unknown_name_encountered`
  surplus : Nat           -- `surplus_args.len()`
  seen : List ν
  missing : List ν
  diags : List Diag
deriving Repr

def stepArg (info : Info ν) (i : Nat) (a : Arg ν α) (s : St ν) : St ν :=
  match a.name with
  | some n =>
    let d1 := if n ∈ info.symbols then s.diags else s.diags ++ [Diag.unknown]
    let d2 := if n ∈ s.seen then d1 ++ [Diag.dup] else d1
    { named := true, unknown := s.unknown || !(n ∈ info.argIndices), surplus := s.surplus,
      seen := setInsert s.seen n, missing := setRemove s.missing n, diags := d2 }
  | none =>
    if s.named then { s with diags := s.diags ++ [Diag.posAfter] }
    else match info.argIndices[i]? with
      | some n => { s with seen := setInsert s.seen n, missing := setRemove s.missing n }
      | none => { s with surplus := s.surplus + 1 }

def loop (info : Info ν) : Nat → List (Arg ν α) → St ν → St ν
  | _, [], s => s
  | i, a :: as, s => loop info (i + 1) as (stepArg info i a s)

/-- `if index < reordered_args.len() { reordered_args[index] = Some(..) }` -/
def placeAt (slots : List (Option (Entry α))) (j : Nat) (v : Entry α) : List (Option (Entry α)) :=
  if j < slots.length then slots.set j (some v) else slots

/-- one write of `calculate_named_arg_order`'s first loop -/
def place (info : Info ν) (slots : List (Option (Entry α))) (i : Nat) (a : Arg ν α) :
    List (Option (Entry α)) :=
  match a.name with
  | some n =>
    match idIndex info.argIndices n with
    | some j => placeAt slots j (Entry.arg a.val)
    | none => slots   -- `get_id` would panic; unreachable: the reorder is skipped after an unknown name
  | none => placeAt slots i (Entry.arg a.val)

def placeAll (info : Info ν) : Nat → List (Arg ν α) → List (Option (Entry α)) → List (Option (Entry α))
  | _, [], sl => sl
  | i, a :: as, sl => placeAll info (i + 1) as (place info sl i a)

/-- `if reordered_args[i].is_none() { reordered_args[i] = Some(default_i) }` -/
def fillOne (sl : List (Option (Entry α))) (i : Nat) : List (Option (Entry α)) :=
  match sl[i]? with
  | some none => sl.set i (some (Entry.dflt i))
  | _ => sl

def fillDefaults (defaults : List Nat) (slots : List (Option (Entry α))) : List (Option (Entry α)) :=
  defaults.foldl fillOne slots

/-- `calculate_named_arg_order` -/
def reorder (info : Info ν) (args : List (Arg ν α)) : List (Entry α) :=
  (fillDefaults info.defaults (placeAll info 0 args (List.replicate info.nargs none))).filterMap id

structure Decision (α : Type) where
  diags : List Diag
  order : Option (List (Entry α))   -- `function_call_arg_order` entry, if one is inserted
deriving Repr

/-- `calculate_func_call_order` for a callee whose `FuncArgDetails` is `info` -/
def decideInfo (info : Info ν) (args : List (Arg ν α)) : Decision α :=
  let s := loop info 0 args
    { named := false, unknown := false, surplus := 0, seen := [], missing := info.required, diags := [] }
  if s.surplus != 0 then { diags := s.diags ++ [Diag.surplus], order := none }
  else if !s.missing.isEmpty then { diags := s.diags ++ [Diag.missing], order := none }
  else if s.unknown then { diags := s.diags, order := none }
  else { diags := s.diags, order := some (reorder info args) }

def decide (ps : List (Param ν)) (args : List (Arg ν α)) : Decision α :=
  decideInfo (mkInfo false ps) args

/-- member function: `has_self = f.args.first().is_some_and(|a| a.name.v == "self")`;
    `self` is the given name of the receiver parameter -/
def decideMethod (self : ν) (ps : List (Param ν)) (args : List (Arg ν α)) : Decision α :=
  let hasSelf := match ps with
    | p :: _ => p.name = self
    | [] => false
  decideInfo (mkInfo hasSelf ps) args

/-- what the call evaluates, in order (the translator emits the entries left to right) -/
def evalOrder : List (Entry α) → List α
  | [] => []
  | Entry.arg v :: es => v :: evalOrder es
  | Entry.dflt _ :: es => evalOrder es

end Abra.CallOrder
