/-
M5 — the incremental mark/sweep collector of one green thread (vm.rs: `maybe_gc`, `start_mark_phase`,
`mark`, `process_gray`, `write_barrier`, `sweep`, the allocation rule in `*Object::new`).

The heap is an abstract object graph: an address is a `Nat`, an object has a list of child addresses
and one mark bit (`visited == gc_visited`).  `heap_list` is kept split as `done ++ todo`: while
sweeping, `done` is the prefix before the sweep index and `todo` the rest; in the other phases
`done = []`.  Collector transitions are functions that do exactly what one loop iteration of the
Rust code does (LIFO gray stack, `swap_remove` order).  The mutator (the VM's instructions) is a
*contract* `mutatorOKb σ σ'` on a before/after pair, evaluated by the driver on dumps of the real
thread state.  No imports.
-/
namespace Abra.GC

structure Obj where
  children : List Nat
  marked : Bool
  deriving Repr, DecidableEq, Inhabited

inductive Phase where
  | idle | marking | sweeping
  deriving Repr, DecidableEq, Inhabited

structure St where
  /-- object table; only meaningful on allocated addresses (`done ++ todo`) -/
  obj : Nat → Obj
  done : List Nat
  todo : List Nat
  /-- operand stack pointers and the two in-flight string operands -/
  roots : List Nat
  /-- gray stack, head = top (`Vec::pop` side) -/
  gray : List Nat
  phase : Phase

def St.heap (σ : St) : List Nat := σ.done ++ σ.todo
def St.marked (σ : St) (a : Nat) : Bool := (σ.obj a).marked
def St.children (σ : St) (a : Nat) : List Nat := (σ.obj a).children

def setMarked (f : Nat → Obj) (a : Nat) (b : Bool) : Nat → Obj :=
  fun x => if x = a then { f x with marked := b } else f x

/-- `VmGreenThread::mark`: an unmarked object becomes marked and is pushed on the gray stack. -/
def markPush (σ : St) (a : Nat) : St :=
  if σ.marked a then σ else { σ with obj := setMarked σ.obj a true, gray := a :: σ.gray }

def markAll (σ : St) (as : List Nat) : St := as.foldl markPush σ

/-- `start_mark_phase` (Idle → Marking): the roots are marked gray. -/
def gcStart (σ : St) : St :=
  match σ.phase with
  | .idle => { markAll σ σ.roots with phase := .marking }
  | _ => σ

/-- End of `process_gray`: when the gray stack has drained the roots are rescanned; only if that
    finds nothing unmarked does the collector enter the sweep phase (index 0). -/
def finishMark (σ : St) : St :=
  match σ.gray with
  | _ :: _ => σ
  | [] =>
    let σ' := markAll σ σ.roots
    match σ'.gray with
    | [] => { σ' with phase := .sweeping, done := [], todo := σ'.heap }
    | _ :: _ => σ'

/-- One iteration of `process_gray` (one object is blackened), followed by the end-of-call test. -/
def gcMarkStep (σ : St) : St :=
  match σ.phase with
  | .marking =>
    match σ.gray with
    | [] => finishMark σ
    | a :: g =>
      let σ1 := { σ with gray := g, obj := setMarked σ.obj a true }
      finishMark (markAll σ1 (σ.children a))
  | _ => σ

def swapRemoveHead : List Nat → List Nat
  | [] => []
  | [_] => []
  | _ :: y :: rest => (y :: rest).getLast! :: (y :: rest).dropLast

/-- One iteration of the `sweep` loop: the object at the sweep index is either reset to white and
    kept, or freed with `swap_remove`. -/
def sweepOne (σ : St) : St :=
  match σ.todo with
  | [] => σ
  | a :: rest =>
    if σ.marked a then
      { σ with obj := setMarked σ.obj a false, done := σ.done ++ [a], todo := rest }
    else
      { σ with todo := swapRemoveHead (a :: rest) }

/-- End of `sweep`: when the index has reached the end the collector returns to Idle. -/
def sweepTail (σ : St) : St :=
  match σ.todo with
  | [] => { σ with phase := .idle, todo := σ.done, done := [] }
  | _ :: _ => σ

def gcSweepStep (σ : St) : St :=
  match σ.phase with
  | .sweeping => sweepTail (sweepOne σ)
  | _ => σ

/-- what `maybe_gc` does with a budget of one object -/
def gcStep (σ : St) : St :=
  match σ.phase with
  | .idle => gcStart σ
  | .marking => gcMarkStep σ
  | .sweeping => gcSweepStep σ

/-! ### The collector as it was before the repair (roots scanned once): kept for the counterexample -/

def finishMarkNoRescan (σ : St) : St :=
  match σ.gray with
  | _ :: _ => σ
  | [] => { σ with phase := .sweeping, done := [], todo := σ.heap }

def gcMarkStepNoRescan (σ : St) : St :=
  match σ.phase with
  | .marking =>
    match σ.gray with
    | [] => finishMarkNoRescan σ
    | a :: g =>
      let σ1 := { σ with gray := g, obj := setMarked σ.obj a true }
      finishMarkNoRescan (markAll σ1 (σ.children a))
  | _ => σ

/-! ### Reachability, executable (fuel = number of allocated objects is enough; soundness is proved) -/

def reachLoop (σ : St) : Nat → List Nat → List Nat → List Nat
  | 0, _, seen => seen
  | _ + 1, [], seen => seen
  | fuel + 1, a :: work, seen =>
    if seen.contains a then reachLoop σ fuel work seen
    else reachLoop σ fuel (σ.children a ++ work) (a :: seen)

/-- addresses found reachable from the roots (every element is truly reachable; with enough fuel all are found) -/
def reachList (σ : St) (fuel : Nat) : List Nat := reachLoop σ fuel σ.roots []

/-! ### The mutator contract, as a decidable check on a before/after pair -/

def allB {α} (l : List α) (p : α → Bool) : Bool := l.all p

/-- `σ'` may follow `σ` by one VM instruction (which never frees and only handles values it can reach):
  * phase and the swept prefix are unchanged; new objects are appended to the heap list, fresh,
    coloured by the allocation rule (marked iff a cycle is running; also gray while marking);
  * an existing object's mark bit changes only from white to marked, only while marking, and
    the object is reachable (it is the value being stored) and is then pushed gray (write barrier);
  * the gray stack only grows, by marked allocated objects, and only while marking;
  * every child that was not there before, and every root, is reachable in `σ` or newly allocated;
  * while marking, a marked non-gray object gets only marked new children (insertion barrier). -/
def mutatorOKb (σ σ' : St) (fuel : Nat) : Bool :=
  let R := reachList σ fuel
  let new := σ'.todo.drop σ.todo.length
  let okRef := fun c => R.contains c || new.contains c
  decide (σ'.phase = σ.phase) &&
  decide (σ'.done = σ.done) &&
  decide (σ'.todo.take σ.todo.length = σ.todo) &&
  allB new (fun a => !(σ.heap.contains a)) &&
  allB new (fun a => σ'.marked a == (σ.phase != .idle)) &&
  allB new (fun a => σ.phase != .marking || σ'.gray.contains a) &&
  allB σ.heap (fun a =>
    σ'.marked a == σ.marked a ||
      (σ.phase == .marking && !σ.marked a && σ'.marked a && σ'.gray.contains a && R.contains a)) &&
  (let k := σ'.gray.length - σ.gray.length
   decide (σ'.gray.drop k = σ.gray) && decide (σ.gray.length ≤ σ'.gray.length) &&
   allB (σ'.gray.take k) (fun a => σ'.heap.contains a && σ'.marked a) &&
   (σ.phase == .marking || k == 0)) &&
  allB σ'.heap (fun a => allB (σ'.children a) (fun c =>
    (σ.heap.contains a && (σ.children a).contains c) || okRef c)) &&
  allB σ'.roots okRef &&
  (σ.phase != .marking ||
    allB σ'.heap (fun p => !σ'.marked p || σ'.gray.contains p ||
      allB (σ'.children p) (fun c =>
        (σ.heap.contains p && (σ.children p).contains c) || σ'.marked c)))

/-- the property itself, executable: every address reachable from the roots is allocated -/
def safeB (σ : St) (fuel : Nat) : Bool :=
  allB (reachList σ fuel) (fun a => σ.heap.contains a)

end Abra.GC
