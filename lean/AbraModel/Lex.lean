/-
M10 `Lex` — model of the tokenizer `/repo/abra_core/src/parse/lexer.rs` (`tokenize_file` and its
helpers `handle_num`, `scan_for_unescaped_delim`, `process_escapes_into`, `handle_multiline_string`),
import-free, over `List Char` (the real lexer works on a `Vec<char>`; spans are *character* indices).

`tokenize` is total: it returns the token list (always ending in `eof`) and the lexer diagnostics.
Follows /repo after the fixes 53558bb (D10), 3d09d81 (D40), fc9cd91 (D42), 5388a80 (D12), 39e6d4f (D51), 53a5e12 (D50).
-/
namespace Abra.Lex

inductive TokenKind
  | eq | lt | le | eqeq | noteq | ge | gt | bang | question
  | plus | pluseq | minus | minuseq | star | stareq | slash | slasheq | caret | mod | modeq
  | dot | dotdot | comma | colon | semicolon | rarrow | vbar | pound
  | lparen | rparen | lbrace | rbrace | lbrack | rbrack
  | kw (name : String)            -- keyword, lower-case spelling
  | intLit (digits : List Char)   -- digits only (`_` dropped)
  | floatLit (s : List Char)      -- digits `.` digits
  | strLit (s : List Char)        -- decoded value
  | ident (s : List Char)
  | polyIdent (s : List Char)
  | wildcard
  | newline
  | eof
  deriving DecidableEq, Repr, Inhabited

structure Token where
  kind : TokenKind
  lo : Nat
  hi : Nat
  deriving DecidableEq, Repr, Inhabited

inductive LexError
  /-- `Error::UnrecognizedToken(file, span)` — the span of the unrecognized character -/
  | unrecognized (lo hi : Nat)
  /-- `Error::UnrecognizedEscapeSequence(file, span)` — the backslash and the character after it,
      as positions in the file -/
  | badEscape (lo hi : Nat)
  deriving DecidableEq, Repr, Inhabited

def keywords : List String :=
  ["let", "var", "type", "interface", "outputtype", "implement", "impl", "extend", "use", "as", "except",
   "fn", "match", "and", "or", "not", "break", "continue", "return", "while", "for", "in", "if", "else",
   "task", "nil", "true", "false", "int", "float", "bool", "string", "void"]

def isDigit (c : Char) : Bool := '0' ≤ c && c ≤ '9'
def isLower (c : Char) : Bool := 'a' ≤ c && c ≤ 'z'
def isUpper (c : Char) : Bool := 'A' ≤ c && c ≤ 'Z'
/-- `start_of_ident` -/
def isIdentStart (c : Char) : Bool := c = '_' || isLower c || isUpper c
/-- `middle_of_ident` -/
def isIdentMid (c : Char) : Bool := c = '_' || isDigit c || isLower c || isUpper c
def isNumChar (c : Char) : Bool := isDigit c || c = '_'

/-- Rust `char::is_whitespace` (Unicode `White_Space`) -/
def isWhitespace (c : Char) : Bool :=
  let n := c.toNat
  (0x09 ≤ n && n ≤ 0x0D) || n = 0x20 || n = 0x85 || n = 0xA0 || n = 0x1680 ||
  (0x2000 ≤ n && n ≤ 0x200A) || n = 0x2028 || n = 0x2029 || n = 0x202F || n = 0x205F || n = 0x3000

/-- `is_poly_ident` on an identifier (ASCII letters/digits/`_`): upper-case first, no further letter -/
def isPolyIdent : List Char → Bool
  | [] => false
  | c :: cs => isUpper c && cs.all (fun d => !(isLower d || isUpper d))

-- ---------------------------------------------------------------- numbers
/-- `handle_num`: the kind and the number of characters consumed -/
def lexNum (cs : List Char) : TokenKind × Nat :=
  let run1 := cs.takeWhile isNumChar
  let rest := cs.drop run1.length
  let d1 := run1.filter isDigit
  match rest with
  | '.' :: rest' =>
    let run2 := rest'.takeWhile isNumChar
    (.floatLit (d1 ++ '.' :: run2.filter isDigit), run1.length + 1 + run2.length)
  | _ => (.intLit d1, run1.length)

def digitVal (c : Char) : Nat := c.toNat - '0'.toNat

/-- decimal value of a digit string -/
def digitsVal (ds : List Char) : Nat := ds.foldl (fun acc c => acc * 10 + digitVal c) 0

def I64_MAX : Nat := 9223372036854775807

/-- `parse_expr_term` on an `IntLit` token, with (`neg = true`) or without a `-` in front:
    `("-" + s).parse::<i64>()` / `s.parse::<i64>()`; `none` = the "Out of range?" diagnostic -/
def intLiteral (neg : Bool) (digits : List Char) : Option Int :=
  if digits.isEmpty then none else
  let n := digitsVal digits
  if neg then (if n ≤ I64_MAX + 1 then some (-(n : Int)) else none)
  else (if n ≤ I64_MAX then some (n : Int) else none)

/-- `parse_match_pattern` on an `IntLit` token: `s.parse::<i64>()` (there is no signed literal
    pattern: a `-` in pattern position is a syntax error) -/
def intPattern (digits : List Char) : Option Int := intLiteral false digits

-- ---------------------------------------------------------------- strings
def isPrefix : List Char → List Char → Bool
  | [], _ => true
  | _ :: _, [] => false
  | d :: ds, c :: cs => d = c && isPrefix ds cs

/-- `scan_for_unescaped_delim` (offset of the first unescaped occurrence of `delim`; `\\X` is skipped
    as a pair; `none` = end of input reached) -/
def scanDelim (delim : List Char) : List Char → Option Nat
  | [] => none
  | c :: cs =>
    if c = '\\' then
      match cs with
      | [] => none
      | _ :: cs' => (scanDelim delim cs').map (· + 2)
    else if isPrefix delim (c :: cs) then some 0
    else (scanDelim delim cs).map (· + 1)

def hexVal? (c : Char) : Option Nat :=
  if isDigit c then some (c.toNat - '0'.toNat)
  else if 'a' ≤ c && c ≤ 'f' then some (c.toNat - 'a'.toNat + 10)
  else if 'A' ≤ c && c ≤ 'F' then some (c.toNat - 'A'.toNat + 10)
  else none

/-- `u8::from_str_radix(&format!("{d2}{d3}"), 16)` (a leading `+` is accepted by Rust) -/
def hexByte? (d2 d3 : Char) : Option Nat :=
  match hexVal? d2, hexVal? d3 with
  | some a, some b => some (a * 16 + b)
  | none, some b => if d2 = '+' then some b else none
  | _, _ => none

/-- `process_escapes_into`: decoded characters and the offsets `p` of unrecognized escapes
    (each reported as the span `[p, p+1)`); `p` = offset of the current character -/
def processEscapesAux : Nat → List Char → List Char × List Nat
  | _, [] => ([], [])
  | p, c :: rest =>
    if c = '\\' then
      match rest with
      | [] => (['\\'], [])                      -- a lone trailing backslash is kept
      | c2 :: rest2 =>
        let simple (ch : Char) :=
          let (s, e) := processEscapesAux (p + 2) rest2
          (ch :: s, e)
        let bad :=
          let (s, e) := processEscapesAux (p + 2) rest2
          (s, p :: e)
        if c2 = 'n' then simple '\n'
        else if c2 = 't' then simple '\t'
        else if c2 = 'r' then simple '\r'
        else if c2 = '"' then simple '"'
        else if c2 = '\'' then simple '\''
        else if c2 = '\\' then simple '\\'
        else if c2 = 'x' then
          match rest2 with
          | d2 :: d3 :: rest4 =>
            match hexByte? d2 d3 with
            | some b =>
              let (s, e) := processEscapesAux (p + 4) rest4
              (Char.ofNat b :: s, e)
            | none => bad
          | _ => bad
        else bad
    else
      let (s, e) := processEscapesAux (p + 1) rest
      (c :: s, e)

def processEscapes (cs : List Char) : List Char × List Nat := processEscapesAux 0 cs

/-- `'…'` / `"…"` after the opening quote `q`: decoded value, characters consumed (incl. both quotes;
    an unterminated literal runs to the end of input without a diagnostic), escape diagnostics -/
def lexQuoted (q : Char) (afterOpen : List Char) : List Char × Nat × List Nat :=
  match scanDelim [q] afterOpen with
  | some k =>
    let (s, e) := processEscapes (afterOpen.take k)
    (s, k + 2, e)
  | none =>
    let (s, e) := processEscapes afterOpen
    (s, afterOpen.length + 1, e)

-- ---------------------------------------------------------------- triple-quoted strings
inductive LineEnd | triple | nl | eof
  deriving DecidableEq, Repr

def startsTriple : List Char → Bool
  | '"' :: '"' :: '"' :: _ => true
  | _ => false

/-- one `get_line` scan: the line's characters, how it ended, and what follows the terminator -/
def splitLine : List Char → List Char × LineEnd × List Char
  | [] => ([], .eof, [])
  | c :: t =>
    if startsTriple (c :: t) then ([], .triple, t.drop 2)
    else if c = '\n' then ([], .nl, t)
    else
      let (l, e, r) := splitLine t
      (c :: l, e, r)

inductive MLine
  | endsTriple (s : List Char)
  | endsNewline (s : List Char)
  | empty (s : List Char)
  deriving DecidableEq, Repr

def MLine.content : MLine → List Char
  | .endsTriple s | .endsNewline s | .empty s => s

/-- the `loop` of `handle_multiline_string`: collected lines, the offset (relative to the text after
    the opening `"""`) at which each collected line starts, `first_line_has_triple_quote`, and the
    characters remaining after the literal; `off` = offset of `cs` -/
def collectLines : Nat → Nat → List MLine → List Nat → Bool → List Char →
    List MLine × List Nat × Bool × List Char
  | 0, _, lines, starts, flag, cs => (lines, starts, flag, cs)
  | f + 1, off, lines, starts, flag, cs =>
    match splitLine cs with
    | (l, .triple, r) =>
      if l.all isWhitespace then (lines, starts, flag, r)
      else (lines ++ [.endsTriple l], starts ++ [off], flag, r)
    | (l, .nl, r) =>
      if l.all isWhitespace then
        if lines.isEmpty then collectLines f (off + l.length + 1) lines starts false r
        else collectLines f (off + l.length + 1) (lines ++ [.empty l]) (starts ++ [off]) flag r
      else collectLines f (off + l.length + 1) (lines ++ [.endsNewline l]) (starts ++ [off]) flag r
    | (_, .eof, r) => (lines, starts, flag, r)

/-- `calculate_indent`: leading spaces count 1, tabs 4 -/
def indentOf : List Char → Nat
  | ' ' :: r => 1 + indentOf r
  | '\t' :: r => 4 + indentOf r
  | _ => 0

/-- minimum indentation of the non-blank lines that take part (`none` = `usize::MAX`) -/
def minIndent (lines : List MLine) (flag : Bool) : Option Nat :=
  let rec go : List MLine → Bool → Option Nat
    | [], _ => none
    | l :: ls, skip =>
      let rest := go ls false
      match l with
      | .empty _ => rest
      | _ =>
        if skip then rest else
        match rest with
        | none => some (indentOf l.content)
        | some m => some (min (indentOf l.content) m)
  go lines flag

/-- strip `n` columns of leading indentation (space = 1 column, tab = 4 columns; a tab that
    straddles the boundary is removed whole); stops at the first other character -/
def dropCols : Nat → List Char → List Char
  | 0, cs => cs
  | n + 1, ' ' :: r => dropCols n r
  | n + 1, '\t' :: r => dropCols (n + 1 - 4) r
  | _ + 1, cs => cs

/-- the literal's raw text before escape processing.  Follows the code after the fixes of D40 and D42:
    `indent = none` (no line took part in the minimum, `usize::MAX` in the code) strips nothing, and
    stripping removes `indent` *columns* of leading blanks, consistently with how `indentOf` counts
    them (the unrepaired code removed `indent` characters, eating text after a tab). -/
def assemble (lines : List MLine) (flag : Bool) (indent : Option Nat) : List Char :=
  let ind := indent.getD 0
  let rec go : List MLine → Bool → List Char
    | [], _ => []
    | [l], first => dropCols (if first && flag then 0 else ind) l.content
    | l :: ls, first => dropCols (if first && flag then 0 else ind) l.content ++ '\n' :: go ls false
  go lines true

/-- for every character of `assemble …` its offset in the text after the opening `"""`
    (`positions` in the code): the kept part of each line, and the line break that joins two lines -/
def assemblePos (lines : List MLine) (starts : List Nat) (flag : Bool) (indent : Option Nat) : List Nat :=
  let ind := indent.getD 0
  let rec go : List MLine → List Nat → Bool → List Nat
    | [], _, _ => []
    | l :: ls, starts, first =>
      let b := starts.headD 0
      let kept := dropCols (if first && flag then 0 else ind) l.content
      let d := l.content.length - kept.length
      let here := (List.range kept.length).map (fun j => b + d + j)
      match ls with
      | [] => here
      | _ => here ++ (b + l.content.length) :: go ls starts.tail false
  go lines starts true

/-- `handle_multiline_string` after the opening `"""`: value, characters consumed after the opener,
    escape diagnostics as `(lo, hi)` offsets in the text after the opener (the backslash and the
    character after it) -/
def lexTriple (afterOpen : List Char) : List Char × Nat × List (Nat × Nat) :=
  let (lines, starts, flag, rest) := collectLines (afterOpen.length + 1) 0 [] [] true afterOpen
  let ind := minIndent lines flag
  let raw := assemble lines flag ind
  let pos := assemblePos lines starts flag ind
  let (s, e) := processEscapes raw
  (s, afterOpen.length - rest.length, e.map (fun p => (pos.getD p 0, pos.getD (p + 1) 0 + 1)))

-- ---------------------------------------------------------------- one step of `tokenize_file`'s loop
structure Step where
  tok : Option TokenKind
  /-- span length of the token = characters consumed (≥ 1 on non-empty input) -/
  len : Nat
  /-- unrecognized escapes as `(lo, hi)` character offsets from the start of the token -/
  badEscapes : List (Nat × Nat) := []
  unrecognized : Bool := false

def punct (k : TokenKind) (n : Nat) : Step := { tok := some k, len := n }
def skip (n : Nat) : Step := { tok := none, len := n }

/-- length of a `//` comment starting at `cs` (up to, not including, the newline) -/
def lineCommentLen : List Char → Nat
  | [] => 0
  | c :: r => if c = '\n' then 0 else 1 + lineCommentLen r

/-- offset just after the first `*/` in `cs`, or the length of `cs` when there is none -/
def blockCommentEnd : List Char → Nat
  | [] => 0
  | c :: r => if c = '*' && r.head? = some '/' then 2 else 1 + blockCommentEnd r

def lexOne : List Char → Step
  | [] => skip 0
  | c :: rest =>
    if isIdentStart c then
      let id := c :: rest.takeWhile isIdentMid
      if id = ['_'] then punct .wildcard 1
      else if keywords.contains (String.ofList id) then punct (.kw (String.ofList id)) id.length
      else if isPolyIdent id then punct (.polyIdent id) id.length
      else punct (.ident id) id.length
    else if isDigit c then
      let (k, n) := lexNum (c :: rest)
      punct k n
    else
      let next := rest.head?
      match c with
      | '(' => punct .lparen 1
      | ')' => punct .rparen 1
      | '{' => punct .lbrace 1
      | '}' => punct .rbrace 1
      | '[' => punct .lbrack 1
      | ']' => punct .rbrack 1
      | ':' => punct .colon 1
      | ';' => punct .semicolon 1
      | ',' => punct .comma 1
      | '\n' => punct .newline 1
      | '?' => punct .question 1
      | '*' => if next = some '=' then punct .stareq 2 else punct .star 1
      | '%' => if next = some '=' then punct .modeq 2 else punct .mod 1
      | '^' => punct .caret 1
      | '#' => punct .pound 1
      | '|' => punct .vbar 1
      | '+' => if next = some '=' then punct .pluseq 2 else punct .plus 1
      | '=' => if next = some '=' then punct .eqeq 2 else punct .eq 1
      | '<' => if next = some '=' then punct .le 2 else punct .lt 1
      | '>' => if next = some '=' then punct .ge 2 else punct .gt 1
      | '!' => if next = some '=' then punct .noteq 2 else punct .bang 1
      | '-' =>
        if next = some '>' then punct .rarrow 2
        else if next = some '=' then punct .minuseq 2 else punct .minus 1
      | '.' => if next = some '.' then punct .dotdot 2 else punct .dot 1
      | '"' =>
        if startsTriple (c :: rest) then
          let (s, n, e) := lexTriple (rest.drop 2)
          { tok := some (.strLit s), len := n + 3, badEscapes := e.map (fun (lo, hi) => (lo + 3, hi + 3)) }
        else
          let (s, n, e) := lexQuoted '"' rest
          { tok := some (.strLit s), len := n, badEscapes := e.map (fun p => (p + 1, p + 3)) }
      | '\'' =>
        let (s, n, e) := lexQuoted '\'' rest
        { tok := some (.strLit s), len := n, badEscapes := e.map (fun p => (p + 1, p + 3)) }
      | '/' =>
        if next = some '/' then skip (1 + lineCommentLen rest)
        else if next = some '*' then skip (min (2 + blockCommentEnd (rest.drop 1)) (rest.length + 1))
        else if next = some '=' then punct .slasheq 2 else punct .slash 1
      | ' ' | '\t' => skip 1
      | '\\' => if next = some '\n' then skip 2 else { tok := none, len := 1, unrecognized := true }
      | _ => { tok := none, len := 1, unrecognized := true }

/-- the main loop; `fuel ≥ cs.length + 1` suffices (every step consumes at least one character) -/
def tokenizeAux : Nat → Nat → List Char → List Token × List LexError
  | 0, pos, _ => ([⟨.eof, pos, pos⟩], [])
  | _ + 1, pos, [] => ([⟨.eof, pos, pos⟩], [])   -- the EOF token is an empty span at the end
  | f + 1, pos, c :: rest =>
    let s := lexOne (c :: rest)
    let n := max s.len 1
    let (ts, es) := tokenizeAux f (pos + n) ((c :: rest).drop n)
    let es' := (if s.unrecognized then [LexError.unrecognized pos (pos + 1)] else []) ++
      s.badEscapes.map (fun (lo, hi) => LexError.badEscape (pos + lo) (pos + hi)) ++ es
    match s.tok with
    | some k => (⟨k, pos, pos + n⟩ :: ts, es')
    | none => (ts, es')

/-- shebang: `#!` at the very beginning skips the rest of the first line -/
def shebangLen : List Char → Nat
  | '#' :: '!' :: rest => 1 + lineCommentLen ('!' :: rest)
  | _ => 0

/-- `tokenize_file`, positions as *character* indices (how the lexer scans): tokens ending in `eof`
    and lexer diagnostics -/
def tokenize (src : List Char) : List Token × List LexError :=
  let n := shebangLen src
  tokenizeAux (src.length + 1) n (src.drop n)

def kinds (src : List Char) : List TokenKind := (tokenize src).1.map (·.kind)

/-- number of bytes of the UTF-8 encoding of the characters -/
def utf8Len : List Char → Nat
  | [] => 0
  | c :: cs => c.utf8Size + utf8Len cs

/-- `Lexer::byte_pos`: byte offset of the character with index `i` (never past the end of the source) -/
def bytePos (src : List Char) (i : Nat) : Nat := utf8Len (src.take i)

/-- what `tokenize_file` hands out: every position is a byte offset into the source -/
def tokenizeBytes (src : List Char) : List Token × List LexError :=
  let (ts, es) := tokenize src
  (ts.map (fun t => { t with lo := bytePos src t.lo, hi := bytePos src t.hi }),
   es.map (fun e => match e with
     | .unrecognized lo hi => .unrecognized (bytePos src lo) (bytePos src hi)
     | .badEscape lo hi => .badEscape (bytePos src lo) (bytePos src hi)))

end Abra.Lex
