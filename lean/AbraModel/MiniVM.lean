import AbraModel.Sched
/-
A concrete green thread for the host-call protocol (C11): program counter + operand stack, the
instructions a host-function wrapper consists of.  `HostFunc(n)` (vm.rs) only sets
`pending_host_func = Some(n)` — the pc has already been advanced — and the embedder's binding then
pops the arguments (last parameter first: `host_bindings.rs` generates `from_vm` calls in reverse
parameter order), pushes the result and calls `clear_pending_host_func`.
-/
namespace Abra.MiniVM
open Abra.Sched

inductive Instr where
  | pushInt (n : Int)
  | pop
  | jump (target : Nat)
  | hostFunc (n : Nat)
  | stop

/-- top of the operand stack = last element -/
structure St where
  pc : Nat
  stack : List Int

def stepI (prog : List Instr) (s : St) : Action St Int String :=
  match prog[s.pc]? with
  | none => .error "pc-out-of-range" s
  | some (.pushInt n) => .cont ⟨s.pc + 1, s.stack ++ [n]⟩
  | some .pop => .cont ⟨s.pc + 1, s.stack.dropLast⟩
  | some (.jump t) => .cont ⟨t, s.stack⟩
  | some (.hostFunc n) => .host n ⟨s.pc + 1, s.stack⟩
  | some .stop => .stop ⟨s.pc + 1, s.stack⟩

/-- the binding pops `k` values, last parameter first; `acc` collects them in parameter order -/
def popN : Nat → List Int → List Int → List Int × List Int
  | 0, st, acc => (acc, st)
  | k + 1, st, acc =>
    match st.getLast? with
    | some v => popN k st.dropLast (v :: acc)
    | none => (acc, st)

/-- An embedder whose host function `n` has `arity n` parameters and returns `f n args`; it records
    every call it sees as (function number, arguments in parameter order). -/
def echoHost (arity : Nat → Nat) (f : Nat → List Int → Int) (log : List (Nat × List Int)) (n : Nat) (s : St) :
    List (Nat × List Int) × St :=
  let p := popN (arity n) s.stack []
  (log ++ [(n, p.1)], ⟨s.pc, p.2 ++ [f n p.1]⟩)

end Abra.MiniVM
