import AbraModel.Asm
/-
M6 (part 2) — the peephole optimizer, transliterated from optimize_bytecode.rs:
`optimize` (repeat `optimization_pass` while the line count shrinks), `optimization_pass` (at each
index try the 3-window, then the 2-window, then the 1-window; a label or the end of the list ends a
window; a replacement carries the annotation of the window's first instruction), the rule tables
`peephole3_helper`, `peephole2_helper`, `peephole1_helper` and the `Instr` helper predicates.

Float constant folding goes through Rust's `parse::<f64>` / `to_string`; the model takes these as a
parameter `FoldEnv` (for the theorems: any environment that agrees with the VM's primitives; for the
driver: a table supplied with the request, computed by the harness with the same Rust expressions).
-/
namespace Abra.Opt
open Abra.Asm

structure FoldEnv where
  /-- `(a.parse::<f64>() ∘ b.parse::<f64>()).to_string()` for the five arithmetic float ops:
      `some (some c)`; `some none` when the result is a NaN (not folded: `to_string` would lose its sign
      and payload — D32 repair); `none` only in the driver (pair missing from the supplied table) -/
  foldF : FloatOp → String → String → Option (Option String)
  /-- `b.parse::<f64>().unwrap() != 0.0` is `!isZeroLit b` -/
  isZeroLit : String → Bool

inductive RuleRes where
  | noMatch
  | replace (out : List Instr)
  | crash                 -- `PushNil(n - 1)` with `n = 0`: u16 underflow (debug build panics)
  | needFold              -- driver only: float fold outside the supplied table
  deriving Repr, DecidableEq

/-! ### helper predicates of `impl Instr` -/

def secondArgIsTop : Instr → Bool
  | .binI _ _ _ .top => true
  | .binF _ _ _ .top => true
  | .atan2 _ _ .top => true
  | .un _ _ .top => true
  | .arrayPush _ .top => true
  | .getIndex _ .top => true
  | .setIndex _ .top => true
  | .getField _ .top => true
  | .setField _ .top => true
  | _ => false

/-- register forms `Op(_, Top, Offset(_))` in the list: every int op except `>=` -/
def intFirstArgReg : IntOp → Bool
  | .ge => false
  | _ => true

/-- immediate forms `OpImm(_, Top, _)` in the list: every int op except `>` -/
def intFirstArgImm : IntOp → Bool
  | .gt => false
  | _ => true

def floatFirstArgReg : FloatOp → Bool
  | .ge => false
  | _ => true

def floatFirstArgImm : FloatOp → Bool
  | .gt => false
  | _ => true

def firstArgIsTopAndSecondArgIsOffsetOrImm : Instr → Bool
  | .binI op _ .top (.off _) => intFirstArgReg op
  | .binIImm op _ .top _ => intFirstArgImm op
  | .binF op _ .top (.off _) => floatFirstArgReg op
  | .binFImm op _ .top _ => floatFirstArgImm op
  | .atan2 _ .top (.off _) => true
  | .arrayPush .top (.off _) => true
  | .arrayPushIntImm .top _ => true
  | .getIndex .top (.off _) => true
  | .setIndex .top _ => true
  | _ => false

def destIsTop : Instr → Bool
  | .binI _ .top _ _ => true
  | .binIImm _ .top _ _ => true
  | .binF _ .top _ _ => true
  | .binFImm _ .top _ _ => true
  | .atan2 .top _ _ => true
  | .un _ .top _ => true
  | _ => false

/-- `replace_first_arg` (the `panic!` arm is unreachable behind its guard; the model returns the
    instruction unchanged there) -/
def replaceFirstArg (i : Instr) (r1 : Reg) : Instr :=
  match i with
  | .binI op d _ r2 => .binI op d r1 r2
  | .binIImm op d _ imm => .binIImm op d r1 imm
  | .binF op d _ r2 => .binF op d r1 r2
  | .binFImm op d _ imm => .binFImm op d r1 imm
  | .atan2 d _ r2 => .atan2 d r1 r2
  | .arrayPush _ r2 => .arrayPush r1 r2
  | .arrayPushIntImm _ imm => .arrayPushIntImm r1 imm
  | .getIndex _ r2 => .getIndex r1 r2
  | .setIndex _ r2 => .setIndex r1 r2
  | i => i

def replaceSecondArg (i : Instr) (r2 : Reg) : Instr :=
  match i with
  | .binI op d r1 _ => .binI op d r1 r2
  | .binF op d r1 _ => .binF op d r1 r2
  | .atan2 d r1 _ => .atan2 d r1 r2
  | .un op d _ => .un op d r2
  | .arrayPush r1 _ => .arrayPush r1 r2
  | .getIndex r1 _ => .getIndex r1 r2
  | .setIndex r1 _ => .setIndex r1 r2
  | .getField idx _ => .getField idx r2
  | .setField idx _ => .setField idx r2
  | i => i

def replaceDest (i : Instr) (d : Reg) : Instr :=
  match i with
  | .binI op _ r1 r2 => .binI op d r1 r2
  | .binIImm op _ r1 imm => .binIImm op d r1 imm
  | .binF op _ r1 r2 => .binF op d r1 r2
  | .binFImm op _ r1 imm => .binFImm op d r1 imm
  | .atan2 _ r1 r2 => .atan2 d r1 r2
  | .un op _ r => .un op d r
  | i => i

def canReplaceSecondArgWithImmInt : Instr → Bool
  | .binI _ _ _ _ => true
  | .arrayPush _ _ => true
  | _ => false

def canReplaceSecondArgWithImmFloat : Instr → Bool
  | .binF _ _ _ _ => true
  | _ => false

def replaceSecondArgImmInt (i : Instr) (imm : Int) : Instr :=
  match i with
  | .binI op d r1 _ => .binIImm op d r1 imm
  | .arrayPush r1 _ => .arrayPushIntImm r1 imm
  | i => i

def replaceSecondArgImmFloat (i : Instr) (imm : String) : Instr :=
  match i with
  | .binF op d r1 _ => .binFImm op d r1 imm
  | i => i

/-! ### the rule tables -/

/-- `peephole1_helper` -/
def peephole1 : Instr → RuleRes
  | .pushNil 0 => .replace []
  | _ => .noMatch

/-- the arms of `peephole2_helper` that need guards, in source order, after the literal patterns -/
def peephole2Guarded (i1 i2 : Instr) : RuleRes :=
  match i1 with
  | .loadOffset off =>
    if secondArgIsTop i2 then .replace [replaceSecondArg i2 (.off off)]
    else if firstArgIsTopAndSecondArgIsOffsetOrImm i2 then .replace [replaceFirstArg i2 (.off off)]
    else match i2 with
      | .storeOffset _ => .noMatch      -- `LoadOffset` is not `dest_is_top`
      | _ => .noMatch
  | _ =>
    match i2 with
    | .storeOffset off =>
      if destIsTop i1 then .replace [replaceDest i1 (.off off)] else .noMatch
    | _ =>
      match i1 with
      | .pushInt n =>
        if secondArgIsTop i2 && canReplaceSecondArgWithImmInt i2 then .replace [replaceSecondArgImmInt i2 n]
        else .noMatch
      | .pushFloat f =>
        if secondArgIsTop i2 && canReplaceSecondArgWithImmFloat i2 then .replace [replaceSecondArgImmFloat i2 f]
        else .noMatch
      | _ => .noMatch

/-- `peephole2_helper`: first matching arm wins -/
def peephole2 (i1 i2 : Instr) : RuleRes :=
  match i1, i2 with
  -- PUSH POP
  | .pushNil n, .pop => if n = 0 then .crash else .replace [.pushNil (n - 1)]
  | .pushBool _, .pop => .replace []
  | .pushFloat _, .pop => .replace []
  | .pushInt _, .pop => .replace []
  | .pushString _, .pop => .replace []
  | .duplicate, .pop => .replace []
  -- NOT JUMP_IF -> JUMP_IF_FALSE
  | .un .not .top .top, .jumpIf l => .replace [.jumpIfFalse l]
  -- PUSH TRUE JUMP_IF
  | .pushBool true, .jumpIf l => .replace [.jump l]
  -- PUSH TRUE JUMP_IF_FALSE
  | .pushBool true, .jumpIfFalse _ => .replace []
  -- PUSH FALSE JUMP_IF
  | .pushBool false, .jumpIf _ => .replace []
  -- BOOLEAN FLIP
  | .pushBool b, .un .not .top .top => .replace [.pushBool (!b)]
  -- PUSHINT STORE -> STORE IMM
  | .pushInt n, .storeOffset off => .replace [.storeOffsetImm off n]
  | i1, i2 => peephole2Guarded i1 i2

def foldInt (op : IntOp) (a b : Int) : Option Int :=
  match op with
  | .add => I64.fold .add a b
  | .sub => I64.fold .sub a b
  | .mul => I64.fold .mul a b
  | .div => I64.fold .div a b
  | .pow => I64.fold .pow a b
  | _ => none

def floatIsArith : FloatOp → Bool
  | .add | .sub | .mul | .div | .pow => true
  | _ => false

/-- `peephole3_helper` -/
def peephole3 (env : FoldEnv) (i1 i2 i3 : Instr) : RuleRes :=
  match i1, i2, i3 with
  | .pushInt a, .pushInt b, .binI op .top .top .top =>
    match foldInt op a b with
    | some c => .replace [.pushInt c]
    | none => .noMatch
  | .pushFloat a, .pushFloat b, .binF op .top .top .top =>
    if floatIsArith op then
      if op = FloatOp.div && env.isZeroLit b then .noMatch
      else match env.foldF op a b with
        | some (some c) => .replace [.pushFloat c]
        | some none => .noMatch
        | none => .needFold
    else .noMatch
  | _, _, _ => .noMatch

/-! ### the pass -/

inductive Hit where
  | miss
  | hit (out : List Instr) (consumed : Nat)
  | crash
  | needFold
  deriving Repr, DecidableEq

/-- what `optimization_pass` does at one index: 3-window, then 2-window, then 1-window -/
def matchAt (env : FoldEnv) : List Line → Hit
  | .instr i1 _ :: rest =>
    let r3 : RuleRes := match rest with
      | .instr i2 _ :: .instr i3 _ :: _ => peephole3 env i1 i2 i3
      | _ => .noMatch
    match r3 with
    | .replace out => .hit out 3
    | .crash => .crash
    | .needFold => .needFold
    | .noMatch =>
      let r2 : RuleRes := match rest with
        | .instr i2 _ :: _ => peephole2 i1 i2
        | _ => .noMatch
      match r2 with
      | .replace out => .hit out 2
      | .crash => .crash
      | .needFold => .needFold
      | .noMatch =>
        match peephole1 i1 with
        | .replace out => .hit out 1
        | .crash => .crash
        | .needFold => .needFold
        | .noMatch => .miss
  | _ => .miss

def annOf : List Line → Ann
  | .instr _ a :: _ => a
  | _ => default

inductive PassRes where
  | ok (ls : List Line)
  | crash
  | needFold
  deriving Repr, DecidableEq

def PassRes.map (f : List Line → List Line) : PassRes → PassRes
  | .ok ls => .ok (f ls)
  | .crash => .crash
  | .needFold => .needFold

/-- `optimization_pass`; the fuel is the number of lines (every step consumes at least one) -/
def passLoop (env : FoldEnv) : Nat → List Line → PassRes
  | _, [] => .ok []
  | 0, _ :: _ => .ok []
  | fuel + 1, l :: rest =>
    match matchAt env (l :: rest) with
    | .hit out k =>
      (passLoop env fuel ((l :: rest).drop k)).map fun tl => out.map (fun i => .instr i (annOf (l :: rest))) ++ tl
    | .crash => .crash
    | .needFold => .needFold
    | .miss => (passLoop env fuel rest).map fun tl => l :: tl

def pass (env : FoldEnv) (ls : List Line) : PassRes := passLoop env ls.length ls

/-- `optimize`: iterate while the number of lines shrinks; fuel = number of lines + 1 -/
def optimizeLoop (env : FoldEnv) : Nat → List Line → PassRes
  | 0, ls => .ok ls
  | fuel + 1, ls =>
    match pass env ls with
    | .ok r => if r.length < ls.length then optimizeLoop env fuel r else .ok r
    | e => e

def optimize (env : FoldEnv) (ls : List Line) : PassRes := optimizeLoop env (ls.length + 1) ls

end Abra.Opt
