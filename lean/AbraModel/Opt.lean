import AbraModel.Asm
/-
M6 (part 2) — the peephole optimizer, transliterated from optimize_bytecode.rs:
`optimize` (repeat `optimization_pass` while the line count shrinks), `optimization_pass` (at each
index try the 3-window, then the 2-window, then the 1-window; a label or the end of the list ends a
window; a replacement carries the annotation of the window's first instruction), the rule tables
`peephole3_helper`, `peephole2_helper`, `peephole1_helper` and the `Instr` helper predicates.

Float constant folding goes through Rust's `parse::<f64>` / `to_string`; the model takes these as a
parameter `FoldEnv` (for the theorems: any environment that agrees with the VM's primitives; for the
driver: a table supplied with the request, computed by the harness with the same Rust expressions).
-/
namespace Abra.Opt
open Abra.Asm

structure FoldEnv where
  /-- `(a.parse::<f64>() ∘ b.parse::<f64>()).to_string()` for the five arithmetic float ops:
      `some (some c)`; `some none` when the result is a NaN (not folded: `to_string` would lose its sign
      and payload — D32 repair); `none` only in the driver (pair missing from the supplied table) -/
  foldF : FloatOp → String → String → Option (Option String)
  /-- `b.parse::<f64>().unwrap() != 0.0` is `!isZeroLit b` -/
  isZeroLit : String → Bool

inductive RuleRes where
  | noMatch
  | replace (out : List Instr)
  | needFold              -- driver only: float fold outside the supplied table
  deriving Repr, DecidableEq

/-! ### helper predicates of `impl Instr` -/

def secondArgIsTop : Instr → Bool
  | .binI _ _ _ .top => true
  | .binF _ _ _ .top => true
  | .atan2 _ _ .top => true
  | .un _ _ .top => true
  | .arrayPush _ .top => true
  | .getIndex _ .top => true
  | .setIndex _ .top => true
  | .getField _ .top => true
  | .setField _ .top => true
  | _ => false

/-- register forms `Op(_, Top, Offset(_))` in the list: every int op except `>=` -/
def intFirstArgReg : IntOp → Bool
  | .ge => false
  | _ => true

/-- immediate forms `OpImm(_, Top, _)` in the list: every int op except `>` -/
def intFirstArgImm : IntOp → Bool
  | .gt => false
  | _ => true

def floatFirstArgReg : FloatOp → Bool
  | .ge => false
  | _ => true

def floatFirstArgImm : FloatOp → Bool
  | .gt => false
  | _ => true

def firstArgIsTopAndSecondArgIsOffsetOrImm : Instr → Bool
  | .binI op _ .top (.off _) => intFirstArgReg op
  | .binIImm op _ .top _ => intFirstArgImm op
  | .binF op _ .top (.off _) => floatFirstArgReg op
  | .binFImm op _ .top _ => floatFirstArgImm op
  | .atan2 _ .top (.off _) => true
  | .arrayPush .top (.off _) => true
  | .arrayPushIntImm .top _ => true
  | .getIndex .top (.off _) => true
  | .setIndex .top _ => true
  | _ => false

def destIsTop : Instr → Bool
  | .binI _ .top _ _ => true
  | .binIImm _ .top _ _ => true
  | .binF _ .top _ _ => true
  | .binFImm _ .top _ _ => true
  | .atan2 .top _ _ => true
  | .un _ .top _ => true
  | _ => false

/-- `replace_first_arg` (the `panic!` arm is unreachable behind its guard; the model returns the
    instruction unchanged there) -/
def replaceFirstArg (i : Instr) (r1 : Reg) : Instr :=
  match i with
  | .binI op d _ r2 => .binI op d r1 r2
  | .binIImm op d _ imm => .binIImm op d r1 imm
  | .binF op d _ r2 => .binF op d r1 r2
  | .binFImm op d _ imm => .binFImm op d r1 imm
  | .atan2 d _ r2 => .atan2 d r1 r2
  | .arrayPush _ r2 => .arrayPush r1 r2
  | .arrayPushIntImm _ imm => .arrayPushIntImm r1 imm
  | .getIndex _ r2 => .getIndex r1 r2
  | .setIndex _ r2 => .setIndex r1 r2
  | i => i

def replaceSecondArg (i : Instr) (r2 : Reg) : Instr :=
  match i with
  | .binI op d r1 _ => .binI op d r1 r2
  | .binF op d r1 _ => .binF op d r1 r2
  | .atan2 d r1 _ => .atan2 d r1 r2
  | .un op d _ => .un op d r2
  | .arrayPush r1 _ => .arrayPush r1 r2
  | .getIndex r1 _ => .getIndex r1 r2
  | .setIndex r1 _ => .setIndex r1 r2
  | .getField idx _ => .getField idx r2
  | .setField idx _ => .setField idx r2
  | i => i

def replaceDest (i : Instr) (d : Reg) : Instr :=
  match i with
  | .binI op _ r1 r2 => .binI op d r1 r2
  | .binIImm op _ r1 imm => .binIImm op d r1 imm
  | .binF op _ r1 r2 => .binF op d r1 r2
  | .binFImm op _ r1 imm => .binFImm op d r1 imm
  | .atan2 _ r1 r2 => .atan2 d r1 r2
  | .un op _ r => .un op d r
  | i => i

def canReplaceSecondArgWithImmInt : Instr → Bool
  | .binI _ _ _ _ => true
  | .arrayPush _ _ => true
  | _ => false

def canReplaceSecondArgWithImmFloat : Instr → Bool
  | .binF _ _ _ _ => true
  | _ => false

def replaceSecondArgImmInt (i : Instr) (imm : Int) : Instr :=
  match i with
  | .binI op d r1 _ => .binIImm op d r1 imm
  | .arrayPush r1 _ => .arrayPushIntImm r1 imm
  | i => i

def replaceSecondArgImmFloat (i : Instr) (imm : String) : Instr :=
  match i with
  | .binF op d r1 _ => .binFImm op d r1 imm
  | i => i

/-- `Reg::offset_is_encodable`: a register operand holds a 15-bit signed offset; larger offsets are only
    reachable with `LoadOffset`/`StoreOffset` (D90 repair: such offsets are not fused) -/
def offsetIsEncodable (n : Int) : Bool := decide (-16384 ≤ n) && decide (n ≤ 16383)

/-! ### the rule tables -/

/-- `peephole1_helper` -/
def peephole1 : Instr → RuleRes
  | .pushNil 0 => .replace []
  | _ => .noMatch

def loadOffsetOf : Instr → Option Int
  | .loadOffset off => some off
  | _ => none

def storeOffsetOf : Instr → Option Int
  | .storeOffset off => some off
  | _ => none

def pushIntOf : Instr → Option Int
  | .pushInt n => some n
  | _ => none

def pushFloatOf : Instr → Option String
  | .pushFloat f => some f
  | _ => none

/-- the arms of `peephole2_helper` that need guards, in source order, after the literal patterns:
    `(LoadOffset(x), i2)` twice, `(i1, StoreOffset(n))`, `(PushInt, i2)`, `(PushFloat, i2)`.
    A `LoadOffset` is neither `dest_is_top` nor a push of a constant, and a `StoreOffset` is not
    `second_arg_is_top`, so an arm whose guard fails is not rescued by a later one. -/
def peephole2Guarded (i1 i2 : Instr) : RuleRes :=
  match loadOffsetOf i1 with
  | some off =>
    -- (only if X fits a register operand)
    if secondArgIsTop i2 && offsetIsEncodable off then .replace [replaceSecondArg i2 (.off off)]
    else if firstArgIsTopAndSecondArgIsOffsetOrImm i2 && offsetIsEncodable off then
      .replace [replaceFirstArg i2 (.off off)]
    else .noMatch
  | none =>
    match storeOffsetOf i2 with
    | some off =>
      if destIsTop i1 && offsetIsEncodable off then .replace [replaceDest i1 (.off off)] else .noMatch
    | none =>
      match pushIntOf i1 with
      | some n =>
        if secondArgIsTop i2 && canReplaceSecondArgWithImmInt i2 then .replace [replaceSecondArgImmInt i2 n]
        else .noMatch
      | none =>
        match pushFloatOf i1 with
        | some f =>
          if secondArgIsTop i2 && canReplaceSecondArgWithImmFloat i2 then .replace [replaceSecondArgImmFloat i2 f]
          else .noMatch
        | none => .noMatch

/-- `peephole2_helper`: first matching arm wins -/
def peephole2 (i1 i2 : Instr) : RuleRes :=
  match i1, i2 with
  -- PUSH POP
  -- (`PushNil(0)` pushes nothing, so a `Pop` after it pops an earlier value: guard `n >= 1`; no later arm
  --  matches `PushNil, Pop`)
  | .pushNil n, .pop => if n ≥ 1 then .replace [.pushNil (n - 1)] else .noMatch
  | .pushBool _, .pop => .replace []
  | .pushFloat _, .pop => .replace []
  | .pushInt _, .pop => .replace []
  | .pushString _, .pop => .replace []
  | .duplicate, .pop => .replace []
  -- NOT JUMP_IF -> JUMP_IF_FALSE
  | .un .not .top .top, .jumpIf l => .replace [.jumpIfFalse l]
  -- PUSH TRUE JUMP_IF
  | .pushBool true, .jumpIf l => .replace [.jump l]
  -- PUSH TRUE JUMP_IF_FALSE
  | .pushBool true, .jumpIfFalse _ => .replace []
  -- PUSH FALSE JUMP_IF
  | .pushBool false, .jumpIf _ => .replace []
  -- BOOLEAN FLIP
  | .pushBool b, .un .not .top .top => .replace [.pushBool (!b)]
  -- PUSHINT STORE -> STORE IMM
  | .pushInt n, .storeOffset off => .replace [.storeOffsetImm off n]
  | i1, i2 => peephole2Guarded i1 i2

def foldInt (op : IntOp) (a b : Int) : Option Int :=
  match op with
  | .add => I64.fold .add a b
  | .sub => I64.fold .sub a b
  | .mul => I64.fold .mul a b
  | .div => I64.fold .div a b
  | .pow => I64.fold .pow a b
  | _ => none

def floatIsArith : FloatOp → Bool
  | .add | .sub | .mul | .div | .pow => true
  | _ => false

/-- `peephole3_helper` -/
def peephole3 (env : FoldEnv) (i1 i2 i3 : Instr) : RuleRes :=
  match i1, i2, i3 with
  | .pushInt a, .pushInt b, .binI op .top .top .top =>
    match foldInt op a b with
    | some c => .replace [.pushInt c]
    | none => .noMatch
  | .pushFloat a, .pushFloat b, .binF op .top .top .top =>
    if floatIsArith op then
      if op = FloatOp.div && env.isZeroLit b then .noMatch
      else match env.foldF op a b with
        | some (some c) => .replace [.pushFloat c]
        | some none => .noMatch
        | none => .needFold
    else .noMatch
  | _, _, _ => .noMatch

/-! ### the pass -/

inductive Hit where
  | miss
  | hit (out : List Instr) (consumed : Nat)
  | needFold
  deriving Repr, DecidableEq

/-- what `optimization_pass` does at one index: 3-window, then 2-window, then 1-window -/
def matchAt (env : FoldEnv) : List Line → Hit
  | .instr i1 _ :: rest =>
    let r3 : RuleRes := match rest with
      | .instr i2 _ :: .instr i3 _ :: _ => peephole3 env i1 i2 i3
      | _ => .noMatch
    match r3 with
    | .replace out => .hit out 3
    | .needFold => .needFold
    | .noMatch =>
      let r2 : RuleRes := match rest with
        | .instr i2 _ :: _ => peephole2 i1 i2
        | _ => .noMatch
      match r2 with
      | .replace out => .hit out 2
        | .needFold => .needFold
      | .noMatch =>
        match peephole1 i1 with
        | .replace out => .hit out 1
            | .needFold => .needFold
        | .noMatch => .miss
  | _ => .miss

def annOf : List Line → Ann
  | .instr _ a :: _ => a
  | _ => default

inductive PassRes where
  | ok (ls : List Line)
  | needFold
  deriving Repr, DecidableEq

def PassRes.map (f : List Line → List Line) : PassRes → PassRes
  | .ok ls => .ok (f ls)
  | .needFold => .needFold

/-- `optimization_pass`; the fuel is the number of lines (every step consumes at least one) -/
def passLoop (env : FoldEnv) : Nat → List Line → PassRes
  | _, [] => .ok []
  | 0, _ :: _ => .ok []
  | fuel + 1, l :: rest =>
    match matchAt env (l :: rest) with
    | .hit out k =>
      (passLoop env fuel ((l :: rest).drop k)).map fun tl => out.map (fun i => .instr i (annOf (l :: rest))) ++ tl
    | .needFold => .needFold
    | .miss => (passLoop env fuel rest).map fun tl => l :: tl

def pass (env : FoldEnv) (ls : List Line) : PassRes := passLoop env ls.length ls

/-- `optimize`: iterate while the number of lines shrinks; fuel = number of lines + 1 -/
def optimizeLoop (env : FoldEnv) : Nat → List Line → PassRes
  | 0, ls => .ok ls
  | fuel + 1, ls =>
    match pass env ls with
    | .ok r => if r.length < ls.length then optimizeLoop env fuel r else .ok r
    | e => e

def optimize (env : FoldEnv) (ls : List Line) : PassRes := optimizeLoop env (ls.length + 1) ls

/-! ### `expand_immediates` (runs after `optimize`, before the location tables are built) -/

/-- `Instr::without_imm`: the push of the immediate operand and the plain instruction taking its second
    argument from the top of the stack -/
def withoutImm : Instr → Option (Instr × Instr)
  | .storeOffsetImm n imm => some (.pushInt imm, .storeOffset n)
  | .binIImm op d r1 imm => some (.pushInt imm, .binI op d r1 .top)
  | .arrayPushIntImm r1 imm => some (.pushInt imm, .arrayPush r1 .top)
  | .binFImm op d r1 imm => some (.pushFloat imm, .binF op d r1 .top)
  | _ => none

/-- which constants got a constant-pool index that fits 16 bits (`gather_constants` numbers them in order
    of first occurrence; the pool is an input here) -/
structure Pool where
  fitsInt : Int → Bool
  fitsFloat : String → Bool

/-- an immediate operand is a 16-bit constant-pool INDEX: the largest one is `u16::MAX` = 65535 -/
def immIndexFits (index : Nat) : Bool := decide (index ≤ 65535)

/-- the pool as `gather_constants` numbers it: `try_get_id(..).is_some_and(|index| index <= u16::MAX)` -/
def poolOfIndex (idxInt : Int → Option Nat) (idxFloat : String → Option Nat) : Pool where
  fitsInt := fun n => match idxInt n with
    | some i => immIndexFits i
    | none => false
  fitsFloat := fun f => match idxFloat f with
    | some i => immIndexFits i
    | none => false

def fits (pool : Pool) : Instr → Bool
  | .pushInt imm => pool.fitsInt imm
  | .pushFloat imm => pool.fitsFloat imm
  | _ => false

/-- an immediate-operand instruction whose constant has no 16-bit index is turned back into push + plain
    instruction, both with the annotation of the original -/
def expandImmediates (pool : Pool) : List Line → List Line
  | [] => []
  | .label l :: rest => .label l :: expandImmediates pool rest
  | .instr i a :: rest =>
    match withoutImm i with
    | some (push, plain) =>
      if fits pool push then .instr i a :: expandImmediates pool rest
      else .instr push a :: .instr plain a :: expandImmediates pool rest
    | none => .instr i a :: expandImmediates pool rest

end Abra.Opt
