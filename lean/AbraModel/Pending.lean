/-
M8b — the operand-stack depth at `break`/`continue` (abra_core/src/translate_bytecode.rs, fix 0c43abd).

`break`/`continue` compile to `Pop × (operands pushed since the body of the innermost enclosing loop began)` and the
jump.  The translator keeps that number in `TranslatorState::pending_operands`: `translate_expr` sets it to its value on
entry plus one when the expression yields a value (its type is neither `void` nor `never`), `translate_stmt` restores it,
and every place that pushes or consumes a value by hand between two sub-expressions adjusts it.  This model states, for
every construct, how many operands are REALLY on the stack when each of its sub-expressions runs (the specification
the hand adjustments have to meet): it is written against the emitted instruction sequences, not against the counter.

The AST keeps only what matters for the depth: which sub-expressions there are, in evaluation order, and whether an
expression yields a value.  `popsE d e` lists, in source order, the number of `Pop`s of every `break`/`continue` in `e`
when `e` starts with `d` operands pending.
-/
namespace Abra.Pending

mutual
inductive PE where
  /-- literal, variable, anything without sub-expressions -/
  | leaf (valued : Bool)
  /-- operands evaluated left to right, every value stays on the stack until all are done: binary operators, `..`,
      call arguments (receiver first), tuple / struct / variant / array (≤ 65535) components, `a[i]`, `arr.push(x)` -/
  | seq (valued : Bool) (args : PEs)
  /-- `n` values pushed by hand before the operand runs: unary minus on int (`PushInt 0`) and float (`PushFloat -0.0`) -/
  | pre (n : Nat) (valued : Bool) (e : PE)
  /-- one operand, consumed by the operation: `not e`, `e.f`, `e!`, `e?`, `println(e)` -/
  | un (valued : Bool) (e : PE)
  /-- the condition is consumed by the conditional jump before a branch runs -/
  | ite (valued : Bool) (c t f : PE)
  /-- `a or b` / `a and b`: the conditional jump consumes the left operand -/
  | orand (a b : PE)
  /-- every arm starts by binding or dropping the scrutinee: arm bodies run at the depth of the `match` -/
  | matchE (valued : Bool) (scrut : PE) (arms : PEs)
  | block (valued : Bool) (ss : PSs)
  /-- lambda / task body: its own frame, no enclosing loop -/
  | fn (body : PE)
  /-- array literal longer than 65535: `first` as for `seq`, `ConstructArray`, then for every further element
      `Duplicate` (array + copy pending), the element, `ArrayPush` -/
  | bigArray (first rest : PEs)
inductive PS where
  | expr (e : PE)
  | let_ (e : PE)
  | assign (e : PE)
  /-- `x op= e`: the old value of `x` is loaded first -/
  | compound (e : PE)
  /-- `o.f = e`: the right-hand side first, then the object -/
  | assignField (rhs obj : PE)
  /-- `o.f op= e`: the object (kept in a temporary), `o.f` loaded, then the right-hand side -/
  | compoundField (obj rhs : PE)
  /-- `a[i] = e` (arrays and user `Index`): array, index, value -/
  | assignIndex (a i rhs : PE)
  /-- `a[i] op= e` (arrays and user `Index`): array and index each go straight into a temporary (nothing stays on the
      stack); then array, index and the old element are loaded and wait for the right-hand side -/
  | compoundIndex (a i rhs : PE)
  /-- the condition still belongs to the enclosing loop; the body starts a new count -/
  | while_ (c : PE) (body : PSs)
  /-- the iterable belongs to the enclosing loop; the iterator is the loop's own (it stays for `continue`, `break`
      jumps to the `Pop` that removes it) -/
  | for_ (it : PE) (body : PSs)
  | brk
  | cont
  | ret (e : PE)
inductive PEs where
  | nil
  | cons (e : PE) (rest : PEs)
inductive PSs where
  | nil
  | cons (s : PS) (rest : PSs)
end

instance : Inhabited PE := ⟨.leaf false⟩
instance : Inhabited PS := ⟨.brk⟩

def PEs.ofList : List PE → PEs
  | [] => .nil
  | e :: r => .cons e (PEs.ofList r)
def PSs.ofList : List PS → PSs
  | [] => .nil
  | s :: r => .cons s (PSs.ofList r)

def PE.valued : PE → Bool
  | .leaf v => v
  | .seq v _ => v
  | .pre _ v _ => v
  | .un v _ => v
  | .ite v _ _ _ => v
  | .orand _ _ => true
  | .matchE v _ _ => v
  | .block v _ => v
  | .fn _ => true
  | .bigArray _ _ => true

def bump (d : Nat) (e : PE) : Nat := if e.valued then d + 1 else d

mutual
def popsE (d : Nat) : PE → List Nat
  | .leaf _ => []
  | .seq _ args => popsArgs d args
  | .pre n _ e => popsE (d + n) e
  | .un _ e => popsE d e
  | .ite _ c t f => popsE d c ++ popsE d t ++ popsE d f
  | .orand a b => popsE d a ++ popsE d b
  | .matchE _ s arms => popsE d s ++ popsAll d arms
  | .block _ ss => popsSs d ss
  | .fn body => popsE 0 body
  | .bigArray first rest => popsArgs d first ++ popsAll (d + 2) rest
/-- operands of one operation: each value waits for the later operands -/
def popsArgs (d : Nat) : PEs → List Nat
  | .nil => []
  | .cons e rest => popsE d e ++ popsArgs (bump d e) rest
/-- alternatives that all start at the same depth -/
def popsAll (d : Nat) : PEs → List Nat
  | .nil => []
  | .cons e rest => popsE d e ++ popsAll d rest
def popsS (d : Nat) : PS → List Nat
  | .expr e => popsE d e
  | .let_ e => popsE d e
  | .assign e => popsE d e
  | .compound e => popsE (d + 1) e
  | .assignField rhs obj => popsE d rhs ++ popsE (bump d rhs) obj
  | .compoundField obj rhs => popsE d obj ++ popsE (d + 1) rhs
  | .assignIndex a i rhs => popsE d a ++ popsE (bump d a) i ++ popsE (bump (bump d a) i) rhs
  | .compoundIndex a i rhs => popsE d a ++ popsE d i ++ popsE (d + 3) rhs
  | .while_ c body => popsE d c ++ popsSs 0 body
  | .for_ it body => popsE d it ++ popsSs 0 body
  | .brk => [d]
  | .cont => [d]
  | .ret e => popsE d e
def popsSs (d : Nat) : PSs → List Nat
  | .nil => []
  | .cons s rest => popsS d s ++ popsSs d rest
end

end Abra.Pending
