/-
M16 — source-location tables and error traces.

* `create_source_location_tables` (translate_bytecode.rs): one loop over the assembly lines, labels
  skipped, instruction index counted, and for each of the three columns (file id, line number,
  function-name id) an entry `(index, id)` is pushed unless the last entry already carries `id`.
* `pc_to_error_location` (vm.rs): `binary_search_by_key(pc)` on each table, `Ok(idx) | Err(idx)` both
  mapped to `idx-1` when `idx ≥ 1`, then `table[idx].1`.
* `make_stack_trace`: the location of every call frame's saved pc, in call-stack order.
* `Display for VmError`: kind, `[traceback]`, the failure location, then the trace reversed; the
  `file:line` column is padded to the widest entry.

Input contract: `build` is applied to the FINAL line list, i.e. the optimized assembly after
`expand_immediates` (translate_bytecode.rs `translate`: optimize → gather_constants → expand_immediates →
create_source_location_tables → remove_labels_and_constants).  The tables index instructions by
position, so the number of `instr` lines given to `build` must equal the compiled program's instruction
count; the correspondence checks exactly that, and a program with more than 65536 constants makes the
difference visible.

The VM increments `pc` before executing an instruction, so the `pc` seen by `make_error` and the
return address stored by `Call`/`CallFuncObj` are both "index of the instruction + 1".
No imports: linked into the model driver.
-/
namespace Abra.SrcMap

/-- `(first bytecode index, id)` -/
abbrev Table := List (Nat × Nat)

/-- one column of the loop body: push `(idx, id)` unless `last.1 == id` -/
def pushIfNew (tbl : Table) (idx id : Nat) : Table :=
  match tbl.getLast? with
  | some last => if last.2 = id then tbl else tbl ++ [(idx, id)]
  | none => tbl ++ [(idx, id)]

/-- annotation carried by `Line::Instr { lineno, file_id, func_id, .. }` -/
structure Ann where
  file : Nat
  line : Nat
  func : Nat
  deriving DecidableEq, Repr, Inhabited

/-- what the trace model needs to know about an instruction -/
inductive Kind where
  | call          -- `Call` and `CallFuncObj`: push a frame holding the incremented pc
  | ret           -- `Return` / `ReturnVoid`: pop a frame, continue at its pc
  | other         -- anything else (may set pc arbitrarily: jumps, resumable string ops, …)
  deriving DecidableEq, Repr, Inhabited

inductive SLine where
  | label
  | instr (a : Ann) (k : Kind)
  deriving Repr, Inhabited

structure Tables where
  files : Table
  lines : Table
  funcs : Table
  deriving Repr, Inhabited

structure BuildState where
  t : Tables
  idx : Nat

/-- the body of the `for line in &st.lines` loop -/
def buildStep (s : BuildState) : SLine → BuildState
  | .label => s
  | .instr a _ =>
    { t := { files := pushIfNew s.t.files s.idx a.file
             lines := pushIfNew s.t.lines s.idx a.line
             funcs := pushIfNew s.t.funcs s.idx a.func }
      idx := s.idx + 1 }

def build (ls : List SLine) : Tables :=
  (ls.foldl buildStep { t := { files := [], lines := [], funcs := [] }, idx := 0 }).t

/-- the instructions of a line list, in bytecode order (labels removed) -/
def instrs : List SLine → List (Ann × Kind)
  | [] => []
  | .label :: ls => instrs ls
  | .instr a k :: ls => (a, k) :: instrs ls

/-- Result of `slice::binary_search_by_key`. -/
inductive Search where
  | ok (i : Nat)
  | err (i : Nat)
  deriving Repr, DecidableEq

/-- Contract of `binary_search_by_key` on a slice whose keys are strictly increasing: `Ok(i)` when
    `tbl[i].0 == pc`, otherwise `Err(i)` with `i` the insertion point (number of keys below `pc`).
    (On a strictly sorted slice the answer is unique, so the bisection order does not matter.) -/
def searchFrom (i : Nat) : Table → Nat → Search
  | [], _ => .err i
  | (k, _) :: rest, pc =>
    if k = pc then .ok i else if pc < k then .err i else searchFrom (i + 1) rest pc

def search (tbl : Table) (pc : Nat) : Search := searchFrom 0 tbl pc

/-- the arm pattern `Ok(idx) | Err(idx)` -/
def Search.idx : Search → Nat
  | .ok i => i
  | .err i => i

/-- one of the three blocks of `pc_to_error_location`; `none` = index out of bounds (host panic) -/
def lookupCol (tbl : Table) (pc : Nat) : Option Nat :=
  let idx := (search tbl pc).idx
  let idx := if idx ≥ 1 then idx - 1 else idx
  (tbl[idx]?).map (·.2)

def lookup (t : Tables) (pc : Nat) : Option Ann :=
  match lookupCol t.files pc, lookupCol t.lines pc, lookupCol t.funcs pc with
  | some f, some l, some fn => some { file := f, line := l, func := fn }
  | _, _, _ => none

/-! ## call stack -/

/-- control state of a green thread between two steps: `pc` = index of the next instruction to fetch,
    `frames` = the saved pcs of `call_stack`, oldest first (`Vec::push`). -/
structure CState where
  pc : Nat
  frames : List Nat
  deriving Repr, DecidableEq

/-- One VM step as far as `pc` and `call_stack` are concerned. The instruction at `s.pc` is fetched and
    `pc` incremented; `Call`/`CallFuncObj` push the incremented pc and continue anywhere (the target
    comes from the instruction or from a function object); `Return*` pops; anything else leaves the
    call stack alone and continues anywhere (fall through, jump, or `pc -= 1` for resumable ops). -/
inductive Step (prog : List (Ann × Kind)) : CState → CState → Prop where
  | call (s : CState) (a : Ann) (target : Nat) :
      prog[s.pc]? = some (a, .call) → Step prog s { pc := target, frames := s.frames ++ [s.pc + 1] }
  | ret (s : CState) (a : Ann) (fs : List Nat) (r : Nat) :
      prog[s.pc]? = some (a, .ret) → s.frames = fs ++ [r] → Step prog s { pc := r, frames := fs }
  | other (s : CState) (a : Ann) (next : Nat) :
      prog[s.pc]? = some (a, .other) → Step prog s { pc := next, frames := s.frames }

/-- states reachable from a thread start (main starts at 0, a task at its label; empty call stack) -/
inductive Reachable (prog : List (Ann × Kind)) : CState → Prop where
  | start (entry : Nat) : Reachable prog { pc := entry, frames := [] }
  | step (s s' : CState) : Reachable prog s → Step prog s s' → Reachable prog s'

/-- `make_stack_trace` -/
def stackTrace (t : Tables) (s : CState) : List (Option Ann) := s.frames.map (lookup t)

/-- the location list printed by `Display for VmError` when the instruction at `s.pc` fails: the VM has
    already incremented pc, so `make_error` sees `s.pc + 1`; then the trace reversed -/
def errorLocations (t : Tables) (s : CState) : List (Option Ann) :=
  lookup t (s.pc + 1) :: (stackTrace t s).reverse

/-! ## rendering -/

structure Loc where
  filename : String
  lineno : Nat
  function : String
  deriving Repr

def padRight (s : String) (w : Nat) : String :=
  s ++ String.ofList (List.replicate (w - s.length) ' ')

/-- `Display for VmError` after the kind line; lines joined by `\n`, each terminated by `\n` -/
def renderTrace (kindLine : String) (locs : List Loc) : String :=
  let width := (locs.map (fun l => l.filename.utf8ByteSize + 1 + (toString l.lineno).length)).foldl max 0
  let width := if locs.isEmpty then 10 else width
  let body := locs.map (fun l =>
    "    " ++ padRight (l.filename ++ ":" ++ toString l.lineno) width ++ " in `" ++ l.function ++ "`\n")
  kindLine ++ "\n[traceback]\n" ++ String.join body

end Abra.SrcMap
