/-
M14b — the interning set `utils/src/id_set.rs` over an explicit store of buffers with owners.

A `World` holds every buffer any set ever allocated (`Vec<T>` = owner, liveness, capacity, contents)
and every set handle created by `new`/`clone`.  A raw pointer `*mut T` is `(buffer id, index)`.
Dereferencing a pointer whose buffer was freed (drop / `old_bufs.clear()`), or whose index is past the
buffer's length, is undefined behaviour (`Out.ub`); so is pushing onto a full `Vec` that pointers
point into (it would reallocate) and freeing a buffer twice.  Import-free (linked into the driver).
-/
namespace Abra.IdSet

/-- `*mut T` into one of the buffers -/
structure Ptr where
  buf : Nat
  idx : Nat
  deriving DecidableEq, Repr, Inhabited

/-- one `Vec<T>` used as a buffer -/
structure Buffer (α : Type) where
  owner : Nat        -- handle of the set that owns (and will free) it
  live : Bool        -- false once freed
  cap : Nat          -- `Vec::capacity()`
  elems : List α     -- contents, `len = elems.length`
  deriving Repr, Inhabited

/-- the fields of `IdSet<T>` -/
structure SetS where
  live : Bool                  -- false once dropped / consumed by `into_iter`
  map : List (Ptr × Nat)       -- `HashMap<Ptr<T>, u32>`: keys hash and compare *through* the pointer
  cur : Nat                    -- `current_buf` (buffer id)
  old : List Nat               -- `old_bufs`, oldest first
  idToPtr : List Ptr           -- `id_to_ptr`
  deriving Repr, Inhabited

structure World (α : Type) where
  bufs : List (Buffer α)
  sets : List SetS
  deriving Repr, Inhabited

def World.empty {α : Type} : World α := ⟨[], []⟩

/-- what an operation returns -/
inductive Out (α : Type) where
  | unit
  | handle (h : Nat)
  | id (n : Nat)
  | optId (o : Option Nat)
  | bool (b : Bool)
  | val (v : α)
  | panic                      -- `index` with an unknown id: `unwrap` on `None` (safe panic)
  | list (l : List α)
  | num (n : Nat)
  | ub                         -- undefined behaviour (dangling dereference, realloc under pointers, double free)
  | bad                        -- not a program safe Rust accepts: the handle is unknown or already moved/dropped
  deriving Repr, DecidableEq, Inhabited

variable {α : Type}

/-- `unsafe { &*ptr }` -/
def World.deref (w : World α) (p : Ptr) : Option α :=
  match w.bufs[p.buf]? with
  | some b => if b.live then b.elems[p.idx]? else none
  | none => none

/-- the buffers of a set in iteration order: `old_bufs` then `current_buf` -/
def SetS.bufIds (s : SetS) : List Nat := s.old ++ [s.cur]

/-- reading a whole buffer the set owns (`buf.iter()`); `none` = the buffer is gone -/
def World.readBuf (w : World α) (b : Nat) : Option (List α) :=
  match w.bufs[b]? with
  | some B => if B.live then some B.elems else none
  | none => none

/-- `iter()`: chain of the buffers' contents; `none` = UB -/
def World.readAll (w : World α) : List Nat → Option (List α)
  | [] => some []
  | b :: bs =>
    match w.readBuf b, w.readAll bs with
    | some l, some r => some (l ++ r)
    | _, _ => none

/-- Probe of the pointer-keyed hash map for a value: every key that is compared is dereferenced.
    The model dereferences the keys in table order until one matches (the real table only touches the
    keys in the probed bucket group, a subset).  `none` = a dangling key was dereferenced (UB). -/
def World.lookup [DecidableEq α] (w : World α) (v : α) : List (Ptr × Nat) → Option (Option (Ptr × Nat))
  | [] => some none
  | (p, i) :: rest =>
    match w.deref p with
    | none => none
    | some x => if x = v then some (some (p, i)) else w.lookup v rest

def World.setSet (w : World α) (h : Nat) (s : SetS) : World α := { w with sets := w.sets.set h s }
def World.setBuf (w : World α) (b : Nat) (B : Buffer α) : World α := { w with bufs := w.bufs.set b B }

/-- a live set behind a handle -/
def World.getSet (w : World α) (h : Nat) : Option SetS :=
  match w.sets[h]? with
  | some s => if s.live then some s else none
  | none => none

/-- `IdSet::new()`: empty map, `Vec::new()` (capacity 0) as current buffer -/
def World.new (w : World α) : World α × Out α :=
  let h := w.sets.length
  let b := w.bufs.length
  ({ bufs := w.bufs ++ [⟨h, true, 0, []⟩], sets := w.sets ++ [⟨true, [], b, [], []⟩] }, .handle h)

/-- "alloc if necessary": a full current buffer is retired and one of double capacity started -/
def World.ensureRoom (w : World α) (h : Nat) (s : SetS) (B : Buffer α) : World α × SetS × Buffer α :=
  if B.elems.length + 1 > B.cap then
    let nb : Buffer α := ⟨h, true, (max B.cap 1) * 2, []⟩
    ({ w with bufs := w.bufs ++ [nb] }, { s with cur := w.bufs.length, old := s.old ++ [s.cur] }, nb)
  else (w, s, B)

/-- the second half of `insert`: push the value, intern the pointer, pop again if it was known -/
def World.pushAndIntern [DecidableEq α] (w1 : World α) (h : Nat) (s1 : SetS) (B1 : Buffer α) (v : α) :
    World α × Out α :=
  let ptr : Ptr := ⟨s1.cur, B1.elems.length⟩
  -- `self.current_buf.push(value)`
  let w2 := w1.setBuf s1.cur { B1 with elems := B1.elems ++ [v] }
  -- `self.map.entry(ptr)`: hashes through `ptr`, compares through the stored keys
  match w2.lookup v s1.map with
  | none => (w2.setSet h s1, .ub)
  | some (some (_, id)) =>
    -- occupied by another pointer: `current_buf.pop()` undoes the push (the buffer is as in `w1`)
    (w1.setSet h s1, .id id)
  | some none =>
    -- vacant: `new_id = map.len()` (taken before the push; the map has not changed since)
    (w2.setSet h { s1 with map := s1.map ++ [(ptr, s1.map.length)], idToPtr := s1.idToPtr ++ [ptr] },
     .id s1.map.length)

/-- `IdSet::insert` -/
def World.insert [DecidableEq α] (w : World α) (h : Nat) (v : α) : World α × Out α :=
  match w.getSet h with
  | none => (w, .bad)
  | some s =>
    match w.bufs[s.cur]? with
    | none => (w, .ub)
    | some B0 =>
      if !B0.live then (w, .ub) else
      match w.ensureRoom h s B0 with
      | (w1, s1, B1) =>
        -- `push` must not reallocate: pointers into the buffer would dangle
        if B1.elems.length + 1 > B1.cap then (w, .ub) else w1.pushAndIntern h s1 B1 v

/-- `try_get_id`: the probe key points at the caller's value; stored keys are dereferenced -/
def World.tryGetId [DecidableEq α] (w : World α) (h : Nat) (v : α) : World α × Out α :=
  match w.getSet h with
  | none => (w, .bad)
  | some s =>
    match w.lookup v s.map with
    | none => (w, .ub)
    | some r => (w, .optId (r.map (·.2)))

def World.contains [DecidableEq α] (w : World α) (h : Nat) (v : α) : World α × Out α :=
  match w.tryGetId h v with
  | (w', .optId r) => (w', .bool r.isSome)
  | r => r

/-- `set[id]`: `id_to_ptr.get(id).map(|p| &*p).unwrap()` -/
def World.index (w : World α) (h : Nat) (id : Nat) : World α × Out α :=
  match w.getSet h with
  | none => (w, .bad)
  | some s =>
    match s.idToPtr[id]? with
    | none => (w, .panic)
    | some p =>
      match w.deref p with
      | none => (w, .ub)
      | some x => (w, .val x)

def World.len (w : World α) (h : Nat) : World α × Out α :=
  match w.getSet h with
  | none => (w, .bad)
  | some s => (w, .num s.map.length)

def World.iter (w : World α) (h : Nat) : World α × Out α :=
  match w.getSet h with
  | none => (w, .bad)
  | some s =>
    match w.readAll s.bufIds with
    | none => (w, .ub)
    | some l => (w, .list l)

/-- free buffers; `none` = double free / unknown buffer -/
def World.free (w : World α) : List Nat → Option (World α)
  | [] => some w
  | b :: bs =>
    match w.bufs[b]? with
    | some B => if B.live then (w.setBuf b { B with live := false, elems := [] }).free bs else none
    | none => none

/-- `clear()`: `map.clear(); current_buf.clear(); old_bufs.clear(); id_to_ptr.clear()` -/
def World.clear (w : World α) (h : Nat) : World α × Out α :=
  match w.getSet h with
  | none => (w, .bad)
  | some s =>
    match w.bufs[s.cur]? with
    | none => (w, .ub)
    | some B =>
      if !B.live then (w, .ub) else
      match (w.setBuf s.cur { B with elems := [] }).free s.old with
      | none => (w, .ub)
      | some w' => (w'.setSet h { s with map := [], old := [], idToPtr := [] }, .unit)

/-- `drop(set)`: every buffer is freed, the handle is gone -/
def World.drop (w : World α) (h : Nat) : World α × Out α :=
  match w.getSet h with
  | none => (w, .bad)
  | some s =>
    match w.free s.bufIds with
    | none => (w, .ub)
    | some w' => (w'.setSet h { s with live := false, map := [], idToPtr := [] }, .unit)

/-- `into_iter()` consumes the set: yields everything in order, then all buffers are freed -/
def World.intoIter (w : World α) (h : Nat) : World α × Out α :=
  match w.iter h with
  | (_, .list l) =>
    match w.drop h with
    | (w', .unit) => (w', .list l)
    | r => r
  | r => r

/-- re-insert a list of values into set `h` (the loop of the repaired `clone`) -/
def World.insertAll [DecidableEq α] (w : World α) (h : Nat) : List α → World α × Out α
  | [] => (w, .unit)
  | v :: vs =>
    match w.insert h v with
    | (w', .id _) => w'.insertAll h vs
    | r => r

/-- `clone()` as repaired (D13): a new set into which the values are inserted in iteration order,
    so the clone owns its own buffers and its pointers point into them. -/
def World.clone [DecidableEq α] (w : World α) (h : Nat) : World α × Out α :=
  match w.iter h with
  | (_, .list l) =>
    let (w1, _) := w.new
    let h' := w.sets.length
    match w1.insertAll h' l with
    | (w2, .unit) => (w2, .handle h')
    | r => r
  | r => r

/-- `#[derive(Clone)]` as it was (D13): the vectors are copied into buffers the clone owns, but
    `map` and `id_to_ptr` are copied verbatim — they still point into the original's buffers. -/
def World.copyBufs (w : World α) (h' : Nat) : List Nat → Option (World α × List Nat)
  | [] => some (w, [])
  | b :: bs =>
    match w.readBuf b with
    | none => none
    | some l =>
      let id := w.bufs.length
      match ({ w with bufs := w.bufs ++ [⟨h', true, l.length, l⟩] } : World α).copyBufs h' bs with
      | none => none
      | some (w', ids) => some (w', id :: ids)

def World.cloneDerived (w : World α) (h : Nat) : World α × Out α :=
  match w.getSet h with
  | none => (w, .bad)
  | some s =>
    let h' := w.sets.length
    match w.copyBufs h' s.bufIds with
    | none => (w, .ub)
    | some (w', ids) =>
      ({ w' with sets := w'.sets ++ [⟨true, s.map, ids.getLastD 0, ids.dropLast, s.idToPtr⟩] }, .handle h')

/-- the operations of a history -/
inductive Op (α : Type) where
  | new
  | insert (h : Nat) (v : α)
  | tryGetId (h : Nat) (v : α)
  | contains (h : Nat) (v : α)
  | index (h : Nat) (id : Nat)
  | len (h : Nat)
  | iter (h : Nat)
  | intoIter (h : Nat)
  | clear (h : Nat)
  | clone (h : Nat)
  | drop (h : Nat)
  deriving Repr, Inhabited

def World.step [DecidableEq α] (w : World α) : Op α → World α × Out α
  | .new => w.new
  | .insert h v => w.insert h v
  | .tryGetId h v => w.tryGetId h v
  | .contains h v => w.contains h v
  | .index h id => w.index h id
  | .len h => w.len h
  | .iter h => w.iter h
  | .intoIter h => w.intoIter h
  | .clear h => w.clear h
  | .clone h => w.clone h
  | .drop h => w.drop h

/-- a whole history: final world and the outputs in order -/
def World.run [DecidableEq α] (w : World α) : List (Op α) → World α × List (Out α)
  | [] => (w, [])
  | op :: ops =>
    let (w1, o) := w.step op
    let (w2, os) := w1.run ops
    (w2, o :: os)

end Abra.IdSet
