import AbraModel.Int64
/-
M6 (part 1) — the assembly instructions that the peephole optimizer mentions (assembly.rs `Instr`,
`Reg`, `Line`) and their semantics on one green thread's operand stack (vm.rs `step`, the arms of
these instructions, `load_offset_or_top`, `store_offset_or_top`, `load_offset`, `store_offset`).

* Every instruction the optimizer never matches is `Instr.other text` (opaque).
* Values carry their tag (the harness links a debug build: `check_type` faults on a wrong tag).
* A host panic inside the VM (index out of bounds, stack underflow, wrong tag, `store_offset` bounds
  failure) is the single outcome `fault`; runtime errors keep their kind.
* Integer arithmetic is `Abra.I64` (M1, proved for C15).  Float arithmetic, float parsing/printing and
  everything that touches the heap are uninterpreted parameters (`Prims`); the float zero test of
  `DivFloat`/`DivFloatImm` is concrete (`b == 0.0` ⇔ the bits are ±0).
* The operand stack is a list with the TOP FIRST; `base` is `stack_base` (an index from the bottom).
-/
namespace Abra.Asm

inductive Reg where
  | off (n : Int)
  | top
  deriving DecidableEq, Repr, Inhabited

/-- `AddInt … EqualInt` (each has an `…Imm` twin) -/
inductive IntOp where
  | add | sub | mul | div | pow | mod | lt | le | gt | ge | eq
  deriving DecidableEq, Repr, Inhabited

/-- `AddFloat … EqualFloat` (each has an `…Imm` twin) -/
inductive FloatOp where
  | add | sub | mul | div | pow | lt | le | gt | ge | eq
  deriving DecidableEq, Repr, Inhabited

/-- two-register instructions `Op(dest, reg)` -/
inductive UnOp where
  | ceil | floor | round | sqrt | sin | cos | tan | asin | acos | atan | log | log2 | log10
  | not | floatFromInt | intFromFloat | stringFromInt | stringFromFloat | arrayLength | arrayPop
  deriving DecidableEq, Repr, Inhabited

inductive Instr where
  | pop
  | duplicate
  | loadOffset (n : Int)
  | storeOffset (n : Int)
  | storeOffsetImm (n : Int) (imm : Int)
  | pushNil (n : Nat)
  | pushBool (b : Bool)
  | pushInt (n : Int)
  | pushFloat (lit : String)
  | pushString (s : String)
  | binI (op : IntOp) (d r1 r2 : Reg)
  | binIImm (op : IntOp) (d r1 : Reg) (imm : Int)
  | binF (op : FloatOp) (d r1 r2 : Reg)
  | binFImm (op : FloatOp) (d r1 : Reg) (imm : String)
  | atan2 (d r1 r2 : Reg)
  | un (op : UnOp) (d r : Reg)
  | arrayPush (r1 r2 : Reg)
  | arrayPushIntImm (r1 : Reg) (imm : Int)
  | getIndex (r1 r2 : Reg)
  | setIndex (r1 r2 : Reg)
  | getField (i : Nat) (r : Reg)
  | setField (i : Nat) (r : Reg)
  | jump (l : String)
  | jumpIf (l : String)
  | jumpIfFalse (l : String)
  | other (text : String)
  deriving DecidableEq, Repr, Inhabited

/-- `lineno`, `file_id`, `func_id` of `Line::Instr` -/
structure Ann where
  file : Nat
  line : Nat
  func : Nat
  deriving DecidableEq, Repr, Inhabited

inductive Line where
  | label (l : String)
  | instr (i : Instr) (a : Ann)
  deriving DecidableEq, Repr, Inhabited

/-! ## machine -/

inductive Val where
  | int (n : Int)
  | float (bits : UInt64)
  | bool (b : Bool)
  | obj (tag : Nat) (p : Nat)      -- struct / array / variant / string / channel / address: opaque
  deriving DecidableEq, Repr, Inhabited

inductive ErrKind where
  | overflow | divZero | oob
  | other (n : Nat)                -- whatever an uninterpreted primitive reports
  deriving DecidableEq, Repr, Inhabited

inductive Res (α : Type) where
  | ok (a : α)
  | err (k : ErrKind)
  | fault
  deriving Repr

def Res.bind {α β : Type} (x : Res α) (f : α → Res β) : Res β :=
  match x with
  | .ok a => f a
  | .err k => .err k
  | .fault => .fault

/-- control after an instruction or a window: fall through, or the jump that was taken -/
inductive Ctl where
  | next
  | jump (l : String)
  deriving DecidableEq, Repr

/-- one green thread's operand stack (top first), frame base, and the heap (opaque) -/
structure St (H : Type) where
  stack : List Val
  base : Nat
  heap : H

/-- Uninterpreted parts of the VM: IEEE arithmetic and libm, float literal parsing and printing, static
    strings, and every operation on heap objects. -/
structure Prims (H : Type) where
  fbin : FloatOp → UInt64 → UInt64 → UInt64        -- + - * / powf on bit patterns (comparison ops unused)
  fcmp : FloatOp → UInt64 → UInt64 → Bool          -- total_cmp is_lt/le/gt/ge/eq (arith ops unused)
  atan2 : UInt64 → UInt64 → UInt64
  parse : String → UInt64                          -- `str::parse::<f64>` then `to_bits`
  toStr : UInt64 → String                          -- `f64::to_string`
  strConst : String → Val                          -- the static string object of a literal
  un : UnOp → Val → H → Res (Val × H)              -- every unary op except `Not`
  arrayPush : Val → Val → H → Res H
  getIndex : Val → Int → H → Res Val
  setIndex : Val → Int → Val → H → Res H
  getField : Nat → Val → H → Res Val
  setField : Nat → Val → Val → H → Res H
  other : String → St H → Res (St H × Ctl)          -- instructions outside the optimizer's vocabulary

variable {H : Type}

/-- `b == 0.0` on the bit pattern: +0.0 or -0.0 -/
def isZeroF (b : UInt64) : Bool := b == 0 || b == 0x8000000000000000

/-- `f64::is_nan` on the bit pattern: exponent all ones, mantissa non-zero -/
def isNaNF (b : UInt64) : Bool := (b >>> 52) &&& 0x7FF == 0x7FF && b &&& 0xFFFFFFFFFFFFF != 0

/-- `stack_base.wrapping_add_signed(offset)`; a negative sum wraps to a huge index (always out of bounds) -/
def absIdx (base : Nat) (off : Int) : Option Nat :=
  if 0 ≤ (base : Int) + off then some ((base : Int) + off).toNat else none

/-- element at index `i` counted from the bottom of a top-first stack -/
def getAbs (stack : List Val) (i : Nat) : Option Val :=
  if i < stack.length then stack[stack.length - 1 - i]? else none

def setAbs (stack : List Val) (i : Nat) (v : Val) : Option (List Val) :=
  if i < stack.length then some (stack.set (stack.length - 1 - i) v) else none

/-- `load_offset` (indexing panics when out of bounds) -/
def loadOff (s : St H) (off : Int) : Res Val :=
  match absIdx s.base off with
  | some i => match getAbs s.stack i with
    | some v => .ok v
    | none => .fault
  | none => .fault

/-- `store_offset` (explicit bounds test → `fail`) and the `Offset` case of `store_offset_or_top`
    (indexing panics): both are faults -/
def storeOff (s : St H) (off : Int) (v : Val) : Res (St H) :=
  match absIdx s.base off with
  | some i => match setAbs s.stack i v with
    | some st => .ok { s with stack := st }
    | none => .fault
  | none => .fault

/-- `load_offset_or_top`: `Top` pops -/
def loadReg (r : Reg) (s : St H) : Res (Val × St H) :=
  match r with
  | .top => match s.stack with
    | v :: rest => .ok (v, { s with stack := rest })
    | [] => .fault
  | .off n => (loadOff s n).bind fun v => .ok (v, s)

/-- `store_offset_or_top`: `Top` pushes -/
def storeReg (r : Reg) (v : Val) (s : St H) : Res (St H) :=
  match r with
  | .top => .ok { s with stack := v :: s.stack }
  | .off n => storeOff s n v

def asInt : Val → Res Int
  | .int n => .ok n
  | _ => .fault

def asFloat : Val → Res UInt64
  | .float b => .ok b
  | _ => .fault

def asBool : Val → Res Bool
  | .bool b => .ok b
  | _ => .fault

def ofOut : I64.Out → Res Val
  | .val n => .ok (.int n)
  | .overflow => .err .overflow
  | .divZero => .err .divZero

/-- the arithmetic of `AddInt … EqualInt`; the `…Imm` arms compute the same expression on
    `(a, constant)` (vm.rs: each Imm arm repeats the body of its twin) -/
def evalInt (op : IntOp) (a b : Int) : Res Val :=
  match op with
  | .add => ofOut (I64.add a b)
  | .sub => ofOut (I64.sub a b)
  | .mul => ofOut (I64.mul a b)
  | .div => ofOut (I64.div a b)
  | .pow => ofOut (I64.pow a b)
  | .mod => ofOut (I64.mod a b)
  | .lt => .ok (.bool (decide (a < b)))
  | .le => .ok (.bool (decide (a ≤ b)))
  | .gt => .ok (.bool (decide (a > b)))
  | .ge => .ok (.bool (decide (a ≥ b)))
  | .eq => .ok (.bool (decide (a = b)))

def FloatOp.isCmp : FloatOp → Bool
  | .lt | .le | .gt | .ge | .eq => true
  | _ => false

/-- `AddFloat … EqualFloat` and their Imm twins (after the D4 repair both `DivFloat` and
    `DivFloatImm` test the divisor against zero) -/
def evalFloat (P : Prims H) (op : FloatOp) (a b : UInt64) : Res Val :=
  if op.isCmp then .ok (.bool (P.fcmp op a b))
  else if op = .div && isZeroF b then .err .divZero
  else .ok (.float (P.fbin op a b))

def evalUn (P : Prims H) (op : UnOp) (v : Val) (h : H) : Res (Val × H) :=
  match op with
  | .not => (asBool v).bind fun b => .ok (.bool (!b), h)
  | _ => P.un op v h

def pushN : Nat → List Val → List Val
  | 0, st => st
  | n + 1, st => pushN n (Val.int 0 :: st)

/-- one instruction (vm.rs `step`, pc handling left to the caller) -/
def exec (P : Prims H) (i : Instr) (s : St H) : Res (St H × Ctl) :=
  match i with
  | .pop => match s.stack with
    | _ :: rest => .ok ({ s with stack := rest }, .next)
    | [] => .fault
  | .duplicate => match s.stack with
    | v :: rest => .ok ({ s with stack := v :: v :: rest }, .next)
    | [] => .fault
  | .loadOffset n => (loadOff s n).bind fun v => .ok ({ s with stack := v :: s.stack }, .next)
  | .storeOffset n => match s.stack with
    | v :: rest => (storeOff { s with stack := rest } n v).bind fun s' => .ok (s', .next)
    | [] => .fault
  | .storeOffsetImm n imm => (storeOff s n (.int imm)).bind fun s' => .ok (s', .next)
  | .pushNil n => .ok ({ s with stack := pushN n s.stack }, .next)
  | .pushBool b => .ok ({ s with stack := .bool b :: s.stack }, .next)
  | .pushInt n => .ok ({ s with stack := .int n :: s.stack }, .next)
  | .pushFloat lit => .ok ({ s with stack := .float (P.parse lit) :: s.stack }, .next)
  | .pushString str => .ok ({ s with stack := P.strConst str :: s.stack }, .next)
  | .binI op d r1 r2 =>
    (loadReg r2 s).bind fun (vb, s1) => (asInt vb).bind fun b =>
    (loadReg r1 s1).bind fun (va, s2) => (asInt va).bind fun a =>
    (evalInt op a b).bind fun c => (storeReg d c s2).bind fun s3 => .ok (s3, .next)
  | .binIImm op d r1 imm =>
    (loadReg r1 s).bind fun (va, s2) => (asInt va).bind fun a =>
    (evalInt op a imm).bind fun c => (storeReg d c s2).bind fun s3 => .ok (s3, .next)
  | .binF op d r1 r2 =>
    (loadReg r2 s).bind fun (vb, s1) => (asFloat vb).bind fun b =>
    (loadReg r1 s1).bind fun (va, s2) => (asFloat va).bind fun a =>
    (evalFloat P op a b).bind fun c => (storeReg d c s2).bind fun s3 => .ok (s3, .next)
  | .binFImm op d r1 imm =>
    (loadReg r1 s).bind fun (va, s2) => (asFloat va).bind fun a =>
    (evalFloat P op a (P.parse imm)).bind fun c => (storeReg d c s2).bind fun s3 => .ok (s3, .next)
  | .atan2 d r1 r2 =>
    (loadReg r2 s).bind fun (vb, s1) => (asFloat vb).bind fun b =>
    (loadReg r1 s1).bind fun (va, s2) => (asFloat va).bind fun a =>
    (storeReg d (.float (P.atan2 a b)) s2).bind fun s3 => .ok (s3, .next)
  | .un op d r =>
    (loadReg r s).bind fun (v, s1) => (evalUn P op v s1.heap).bind fun (c, h) =>
    (storeReg d c { s1 with heap := h }).bind fun s3 => .ok (s3, .next)
  | .arrayPush r1 r2 =>
    (loadReg r2 s).bind fun (rv, s1) => (loadReg r1 s1).bind fun (arr, s2) =>
    (P.arrayPush arr rv s2.heap).bind fun h => .ok ({ s2 with heap := h }, .next)
  | .arrayPushIntImm r1 imm =>
    (loadReg r1 s).bind fun (arr, s2) =>
    (P.arrayPush arr (.int imm) s2.heap).bind fun h => .ok ({ s2 with heap := h }, .next)
  | .getIndex r1 r2 =>
    (loadReg r2 s).bind fun (vi, s1) => (asInt vi).bind fun idx =>
    (loadReg r1 s1).bind fun (arr, s2) =>
    (P.getIndex arr idx s2.heap).bind fun v => .ok ({ s2 with stack := v :: s2.stack }, .next)
  | .setIndex r1 r2 =>
    (loadReg r2 s).bind fun (rv, s1) => (loadReg r1 s1).bind fun (vi, s2) => (asInt vi).bind fun idx =>
    match s2.stack with
    | arr :: rest => (P.setIndex arr idx rv s2.heap).bind fun h => .ok ({ s2 with stack := rest, heap := h }, .next)
    | [] => .fault
  | .getField i r =>
    (loadReg r s).bind fun (sv, s1) =>
    (P.getField i sv s1.heap).bind fun v => .ok ({ s1 with stack := v :: s1.stack }, .next)
  | .setField i r =>
    (loadReg r s).bind fun (sv, s1) =>
    match s1.stack with
    | rv :: rest => (P.setField i sv rv s1.heap).bind fun h => .ok ({ s1 with stack := rest, heap := h }, .next)
    | [] => .fault
  | .jump l => .ok (s, .jump l)
  | .jumpIf l => match s.stack with
    | v :: rest => (asBool v).bind fun b => .ok ({ s with stack := rest }, if b then .jump l else .next)
    | [] => .fault
  | .jumpIfFalse l => match s.stack with
    | v :: rest => (asBool v).bind fun b => .ok ({ s with stack := rest }, if b then .next else .jump l)
    | [] => .fault
  | .other text => P.other text s

/-- run a straight-line sequence: stop at the first error, fault, or taken jump -/
def run (P : Prims H) : List Instr → St H → Res (St H × Ctl)
  | [], s => .ok (s, .next)
  | i :: rest, s => (exec P i s).bind fun (s', c) =>
    match c with
    | .next => run P rest s'
    | .jump l => .ok (s', .jump l)

end Abra.Asm
