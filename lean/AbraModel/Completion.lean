/- M12c `Completion`: the identifier slice `completions_at` (abra_core/src/lib.rs) takes in front of a `.`:

     if offset > 0 && source.as_bytes().get(offset - 1) == Some(&b'.') {
         let ident_end = offset - 1;
         let mut ident_start = ident_end;
         while ident_start > 0 {
             let b = source.as_bytes()[ident_start - 1];
             if b.is_ascii_alphanumeric() || b == b'_' { ident_start -= 1; } else { break; }
         }
         if ident_start >= ident_end { return vec![]; }
         let ident_name = &source[ident_start..ident_end];

   The two places that can panic are the index expression `bytes[ident_start - 1]` and the `str` slice
   (which panics unless both ends are char boundaries and start <= end <= len). -/
namespace Abra.Completion

/-- `b.is_ascii_alphanumeric() || b == b'_'` -/
def isIdentByte (b : UInt8) : Bool :=
  (48 ≤ b && b ≤ 57) || (65 ≤ b && b ≤ 90) || (97 ≤ b && b ≤ 122) || b == 95

/-- `bytes.get(i)` -/
def byteAt (bs : ByteArray) (i : Nat) : Option UInt8 :=
  if h : i < bs.size then some bs[i] else none

/-- the `while` loop, started at `ident_start = i`; `none` = `bytes[ident_start - 1]` out of bounds (a panic) -/
def scanBack (bs : ByteArray) : Nat → Option Nat
  | 0 => some 0
  | i + 1 =>
    match byteAt bs i with
    | none => none
    | some b => if isIdentByte b then scanBack bs i else some (i + 1)

inductive Scan where
  /-- not behind a `.`: the file's namespace is listed -/
  | fileScope
  /-- `ident_start >= ident_end`: `return vec![]` -/
  | noIdent
  /-- `&source[a..b]` is taken -/
  | slice (a b : Nat)
  /-- an index expression out of bounds -/
  | panic
  deriving Repr, DecidableEq

def completionScan (bs : ByteArray) (offset : Nat) : Scan :=
  if offset > 0 ∧ byteAt bs (offset - 1) = some 46 then
    match scanBack bs (offset - 1) with
    | none => .panic
    | some a => if a ≥ offset - 1 then .noIdent else .slice a (offset - 1)
  else .fileScope

end Abra.Completion
