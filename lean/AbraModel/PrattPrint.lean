import AbraModel.Pratt
/-
Specification side of C31: the *documented* precedence table
(`/repo/book/src/language_reference/operators.md`, section "Operator precedence") and the printer
`printMinimal`, which writes an expression tree as a token list and parenthesises an operand exactly
when the documented table (a tighter level is demanded than the operand has) or left associativity
(a right operand on the same level) requires it.  Import-free apart from the token/tree types.
-/
namespace Abra.Pratt

/-- documented level of a binary operator (the book's table; *not* `BinOp.prec`, which is the code) -/
def docLevel : BinOp → Nat
  | .and | .or => 1          -- 1  `and`, `or`
  | .eq | .ne => 2           -- 2  `==`, `!=`
  | .fmt => 3                -- 3  `..`
  | .lt | .le | .gt | .ge => 5   -- 5  `<`, `<=`, `>`, `>=`
  | .add | .sub => 6         -- 6  `+`, `-` (binary or unary)
  | .mul | .div => 7         -- 7  `*`, `/`
  | .mod => 8                -- 8  `%`
  | .pow => 9                -- 9  `^`

/-- documented level of unary minus ("`+`, `-` (binary or unary)": 6) and of `not` (10) -/
def docLevelNeg : Nat := 6
def docLevelNot : Nat := 10
/-- member access, index, call, `!`, `?` (documented 11–15) apply to a primary expression on their
    left and have no right operand, so their mutual order cannot change a grouping; atoms, postfix
    forms, tuples and array literals are "primary" (tighter than every prefix and binary operator) -/
def primaryLevel : Nat := 16

/-- the level of an expression = the level of its top operator -/
def Expr.level : Expr → Nat
  | .bin o _ _ => docLevel o
  | .neg _ => docLevelNeg
  | .not _ => docLevelNot
  | _ => primaryLevel

def paren (ts : List Tok) : List Tok := .lparen :: (ts ++ [.rparen])

def wrapIf (c : Bool) (ts : List Tok) : List Tok := if c then paren ts else ts

mutual
/-- print with minimal parentheses.  An operand is parenthesised iff its level is not tighter than
    what its position demands: right operands and prefix/postfix operands must be strictly tighter
    than the operator, left operands of a binary operator at least as tight (left associativity). -/
def Expr.print : Expr → List Tok
  | .atom a => [.atom a]
  | .neg e => .op .sub :: wrapIf (decide (e.level ≤ docLevelNeg)) e.print
  | .not e => .not :: wrapIf (decide (e.level ≤ docLevelNot)) e.print
  | .bin o l r =>
    wrapIf (decide (l.level < docLevel o)) l.print ++ .op o :: wrapIf (decide (r.level ≤ docLevel o)) r.print
  | .member e s => wrapIf (decide (e.level < primaryLevel)) e.print ++ [.dot, .atom (.ident s)]
  | .index e i => wrapIf (decide (e.level < primaryLevel)) e.print ++ .lbrack :: (i.print ++ [.rbrack])
  | .unwrap e => wrapIf (decide (e.level < primaryLevel)) e.print ++ [.bang]
  | .try_ e => wrapIf (decide (e.level < primaryLevel)) e.print ++ [.question]
  | .call f as => wrapIf (decide (f.level < primaryLevel)) f.print ++ .lparen :: (as.print ++ [.rparen])
  | .tuple as => .lparen :: (as.print ++ [.rparen])
  | .array as => .lbrack :: (as.print ++ [.rbrack])
def Args.print : Args → List Tok
  | .nil => []
  | .cons e .nil => e.print
  | .cons e es => e.print ++ .comma :: es.print
end

def printMinimal (t : Expr) : List Tok := t.print

def Args.length : Args → Nat
  | .nil => 0
  | .cons _ es => es.length + 1

mutual
/-- trees the parser can produce at all: integer literals fit `i64`, tuples have ≥ 2 components -/
def Expr.WF : Expr → Prop
  | .atom (.int n) => n ≤ I64_MAX
  | .atom _ => True
  | .neg e => e.WF
  | .not e => e.WF
  | .bin _ l r => l.WF ∧ r.WF
  | .member e _ => e.WF
  | .index e i => e.WF ∧ i.WF
  | .unwrap e => e.WF
  | .try_ e => e.WF
  | .call f as => f.WF ∧ as.WF
  | .tuple as => as.WF ∧ 2 ≤ as.length
  | .array as => as.WF
def Args.WF : Args → Prop
  | .nil => True
  | .cons e es => e.WF ∧ es.WF
end

end Abra.Pratt
