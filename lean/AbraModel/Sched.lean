/-
M4 `Sched`: the green-thread runtime of `abra_core/src/vm.rs` — `Runtime::{run_n_steps,
run_threads_round_robin, finish_thread_turn, drain_new_threads, update_status_helper}`,
`VmGreenThread::{can_run, status}` and the scheduler-visible effect of the instruction arms
`ConstructChannel`, `ChannelRead`, `ChannelWrite`, `SpawnTask`, `HostFunc`, `Stop` and of a failing
instruction.

The model is independent of the instruction set: a green thread is an abstract state `T` with a
deterministic `step : T → Action T V E` saying what its next instruction does.  Everything the
scheduler itself does follows the code as it is (built without the `ffi` feature, so
`pending_ffi_call` is never set):

* `run_queue : VecDeque<Box<VmGreenThread>>`  ↦ `runQueue : List (Thread T E)` (front = head)
* `new_threads : Receiver<…>` (mpsc)          ↦ `newThreads` (FIFO; `SpawnTask` sends to its back)
* `finished_main_thread`                      ↦ `finishedMain`
* `Arc<Mutex<VecDeque<Message>>>` of a channel ↦ `chans[c]` (the identity of the `Arc` is the index; a message is
  an abstract value `V` here — what it contains is the matter of `Abra.Heap`)
* `new_thread_id()`                           ↦ `nextId`
* `trace` is ghost state: one event per executed instruction, exactly what the `verif_sched` hook logs.

The `while remaining_steps > 0 && skipped_threads < run_queue.len()` loop is split into `skipPhase`
(the turns that skip a thread: they do not change `remaining_steps`, and `skipped_threads` is reset
to 0 by every executed instruction) and `loop` (one executed instruction per iteration), which makes
both structurally recursive.
-/
namespace Abra.Sched

/-- What one executed instruction does, as far as the scheduler can tell. -/
inductive Action (T V E : Type) where
  /-- any instruction that only changes the thread itself -/
  | cont (t : T)
  /-- `ConstructChannel`: a fresh queue; its identity is handed to the thread -/
  | newChan (k : Nat → T)
  /-- `ChannelRead` on queue `c`: `k v` when `v` is popped; an empty queue leaves the thread as it was
      (the channel is pushed back and the pc rewound) -/
  | read (c : Nat) (k : V → T)
  /-- `ChannelWrite` of `v` to queue `c` -/
  | write (c : Nat) (v : V) (t : T)
  /-- `SpawnTask`: `child` is the new thread (captures already copied) -/
  | spawn (child : T) (t : T)
  /-- `HostFunc(n)`: `pending_host_func = Some(n)`; `t` has the pc after the instruction -/
  | host (n : Nat) (t : T)
  /-- `Stop`: `done = true` -/
  | stop (t : T)
  /-- an instruction that fails: `error = Some(e)` -/
  | error (e : E) (t : T)

structure Thread (T E : Type) where
  id : Nat
  isMain : Bool
  st : T
  pending : Option Nat := none
  err : Option E := none
  done : Bool := false

/-- `VmGreenThread::can_run` (no ffi: `pending_ffi_call` is always `None`) -/
def Thread.canRun {T E : Type} (t : Thread T E) : Bool :=
  t.pending.isNone && t.err.isNone && !t.done

inductive VmStatus (E : Type) where
  | done
  | pendingHost (n : Nat)
  | outOfSteps
  | error (e : E)

/-- `VmGreenThread::status`: pending host call first, then done, then error -/
def Thread.status {T E : Type} (t : Thread T E) : VmStatus E :=
  match t.pending with
  | some n => .pendingHost n
  | none =>
    if t.done then .done else
    match t.err with
    | some e => .error e
    | none => .outOfSteps

/-- kind of an executed instruction (what `verif_sched::StepKind` records) -/
inductive Kind (V E : Type) where
  | other
  | newChan (c : Nat)
  | readOk (c : Nat) (v : V)
  | readBlocked (c : Nat)
  | write (c : Nat) (v : V)
  | spawn (child : Nat)
  | host (n : Nat)
  | stop
  | error (e : E)

structure Event (V E : Type) where
  tid : Nat
  kind : Kind V E

structure Runtime (T V E : Type) where
  runQueue : List (Thread T E)
  newThreads : List (Thread T E) := []
  finishedMain : Option (Thread T E) := none
  chans : List (List V) := []
  nextId : Nat
  trace : List (Event V E) := []

/-- `Runtime::new`: the main thread alone in the run queue -/
def Runtime.new {T V E : Type} (main : T) : Runtime T V E :=
  { runQueue := [{ id := 0, isMain := true, st := main }], nextId := 1 }

def getQ {V : Type} (chans : List (List V)) (c : Nat) : List V := chans.getD c []
/-- replace queue `c`; an index that was never created is created on the way (the real code cannot
    reach this case: a channel value always comes from `ConstructChannel`; the driver rejects it) -/
def setQ {V : Type} (chans : List (List V)) (c : Nat) (q : List V) : List (List V) :=
  if c < chans.length then chans.set c q else chans ++ List.replicate (c - chans.length) [] ++ [q]

section
variable {T V E : Type}

/-- `thread.run_n_steps(1)` for a thread that can run: the instruction's effect on the shared state
    (channels, new-thread queue, id counter) and on the thread. -/
def exec (step : T → Action T V E) (r : Runtime T V E) (th : Thread T E) :
    Runtime T V E × Thread T E :=
  match step th.st with
  | .cont t => ({ r with trace := r.trace ++ [⟨th.id, .other⟩] }, { th with st := t })
  | .newChan k =>
    ({ r with chans := r.chans ++ [[]], trace := r.trace ++ [⟨th.id, .newChan r.chans.length⟩] },
     { th with st := k r.chans.length })
  | .read c k =>
    match getQ r.chans c with
    | [] => ({ r with trace := r.trace ++ [⟨th.id, .readBlocked c⟩] }, th)
    | v :: q =>
      ({ r with chans := setQ r.chans c q, trace := r.trace ++ [⟨th.id, .readOk c v⟩] },
       { th with st := k v })
  | .write c v t =>
    ({ r with chans := setQ r.chans c (getQ r.chans c ++ [v]),
              trace := r.trace ++ [⟨th.id, .write c v⟩] },
     { th with st := t })
  | .spawn child t =>
    ({ r with newThreads := r.newThreads ++ [{ id := r.nextId, isMain := false, st := child }],
              nextId := r.nextId + 1,
              trace := r.trace ++ [⟨th.id, .spawn r.nextId⟩] },
     { th with st := t })
  | .host n t => ({ r with trace := r.trace ++ [⟨th.id, .host n⟩] }, { th with st := t, pending := some n })
  | .stop t => ({ r with trace := r.trace ++ [⟨th.id, .stop⟩] }, { th with st := t, done := true })
  | .error e t => ({ r with trace := r.trace ++ [⟨th.id, .error e⟩] }, { th with st := t, err := some e })

/-- a thread that `finish_thread_turn` does not put back: finished, or — for a task — stopped with a runtime
    error (fix 39422dd, D113: a failed task is released like a finished one; a failed MAIN thread stays queued
    and is what `MainThreadError` reports) -/
def Thread.gone (t : Thread T E) : Bool := t.done || (!t.isMain && t.err.isSome)

/-- `Runtime::finish_thread_turn`: a finished main thread is parked and reported at once; a finished or
    failed task is dropped; anything else goes to the back of the run queue. -/
def finishThreadTurn (r : Runtime T V E) (th : Thread T E) : Runtime T V E × Bool :=
  if th.isMain && th.done then ({ r with finishedMain := some th }, true)
  else if !th.isMain && (th.done || th.err.isSome) then (r, false)
  else ({ r with runQueue := r.runQueue ++ [th] }, false)

/-- `Runtime::drain_new_threads` over the queued threads `ts` (the rest stays queued on early return) -/
def drainAux (r : Runtime T V E) : List (Thread T E) → Runtime T V E × Bool
  | [] => ({ r with newThreads := [] }, false)
  | t :: rest =>
    let p := finishThreadTurn r t
    if p.2 then ({ p.1 with newThreads := rest }, true) else drainAux p.1 rest

def drainNewThreads (r : Runtime T V E) : Runtime T V E × Bool := drainAux r r.newThreads

/-- Result of the turns that skip threads. -/
inductive SkipRes (T V E : Type) where
  /-- the loop condition failed (`skipped_threads ≥ run_queue.len()`, or nothing to pop) -/
  | exit (r : Runtime T V E)
  /-- `finish_thread_turn` / `drain_new_threads` reported the finished main thread -/
  | mainDone (r : Runtime T V E)
  /-- the popped thread can run; `r` is the runtime without it -/
  | run (th : Thread T E) (r : Runtime T V E)

/-- The loop iterations that do not execute an instruction, starting with `skipped_threads = k`.
    `fuel` bounds the number of turns; `r.runQueue.length + r.newThreads.length + 1 - k` suffices
    (`skipPhase_fuel`), running out is reported as `exit`. -/
def skipPhase : Nat → Nat → Runtime T V E → SkipRes T V E
  | 0, _, r => .exit r
  | fuel + 1, k, r =>
    if r.runQueue.length ≤ k then .exit r else
    match r.runQueue with
    | [] => .exit r
    | th :: rest =>
      let r0 := { r with runQueue := rest }
      if th.canRun then .run th r0 else
      let p := finishThreadTurn r0 th
      if p.2 then .mainDone p.1 else
      let q := drainNewThreads p.1
      if q.2 then .mainDone q.1 else skipPhase fuel (k + 1) q.1

/-- The `while` loop of `run_threads_round_robin` with `remaining_steps = rem`, `steps_run = s`,
    `skipped_threads = 0`: returns (runtime, main_thread_done, steps_run). -/
def loop (step : T → Action T V E) : Nat → Nat → Runtime T V E → Runtime T V E × Bool × Nat
  | 0, s, r => (r, false, s)
  | rem + 1, s, r =>
    match skipPhase (r.runQueue.length + r.newThreads.length + 1) 0 r with
    | .exit r' => (r', false, s)
    | .mainDone r' => (r', true, s)
    | .run th r0 =>
      let e := exec step r0 th
      let p := finishThreadTurn e.1 e.2
      if p.2 then (p.1, true, s + 1) else
      let q := drainNewThreads p.1
      if q.2 then (q.1, true, s + 1) else loop step rem (s + 1) q.1

/-- `Runtime::run_threads_round_robin` -/
def roundRobin (step : T → Action T V E) (budget : Nat) (r : Runtime T V E) :
    Runtime T V E × Bool × Nat :=
  let d := drainNewThreads r
  if d.2 then (d.1, true, 0) else loop step budget 0 d.1

inductive Status (E : Type) where
  | done
  | pendingHost
  | outOfSteps
  | mainError (e : E)

/-- `Runtime::try_get_main` -/
def tryGetMain (r : Runtime T V E) : Option (Thread T E) :=
  match r.runQueue.find? (·.isMain) with
  | some m => some m
  | none => r.finishedMain

def anyPending (r : Runtime T V E) : Status E :=
  if r.runQueue.any (fun t => t.pending.isSome) then .pendingHost else .outOfSteps

/-- `Runtime::update_status_helper`: the main thread's state first, then any pending host call -/
def updateStatus (r : Runtime T V E) : Status E :=
  match tryGetMain r with
  | none => anyPending r
  | some m =>
    match m.status with
    | .done => .done
    | .pendingHost _ => .pendingHost
    | .error e => .mainError e
    | .outOfSteps => anyPending r

structure RunResult (T V E : Type) where
  rt : Runtime T V E
  status : Status E
  steps : Nat
  /-- `main_thread_done` as returned by `run_threads_round_robin` (the call in which main stopped) -/
  doneNow : Bool

/-- `Runtime::run_n_steps` -/
def runN (step : T → Action T V E) (budget : Nat) (r : Runtime T V E) : RunResult T V E :=
  let x := roundRobin step budget r
  if x.2.1 then ⟨x.1, .done, x.2.2, true⟩ else ⟨x.1, updateStatus x.1, x.2.2, false⟩

/-! ### The embedder -/

/-- Servicing of pending host calls the way the embedder does it between `run_n_steps` calls:
    every thread of the run queue with a pending call is handed to the host (which pops the
    arguments, pushes the result — `resume` — and may change its own state `H`, e.g. the output),
    then `clear_pending_host_func`. -/
def serviceList {H : Type} (host : H → Nat → T → H × T) : H → List (Thread T E) → H × List (Thread T E)
  | h, [] => (h, [])
  | h, t :: ts =>
    match t.pending with
    | some n =>
      let a := host h n t.st
      let b := serviceList host a.1 ts
      (b.1, { t with st := a.2, pending := none } :: b.2)
    | none =>
      let b := serviceList host h ts
      (b.1, t :: b.2)

def serviceAll {H : Type} (host : H → Nat → T → H × T) (h : H) (r : Runtime T V E) : H × Runtime T V E :=
  let x := serviceList host h r.runQueue
  (x.1, { r with runQueue := x.2 })

/-- An embedder that calls `run_n_steps` with the budgets `bs` one after the other, does nothing in
    between, and stops at the call in which the main thread finishes; `steps` are added up. -/
def runSeq (step : T → Action T V E) : List Nat → Runtime T V E → RunResult T V E
  | [], r => runN step 0 r
  | b :: bs, r =>
    let x := runN step b r
    if x.doneNow then x else
    let y := runSeq step bs x.rt
    { y with steps := x.steps + y.steps }

/-- `Runtime::run_with_granularity(n)` (and `Runtime::run()` = granularity `u32::MAX`): call `run_n_steps(n)`
    again and again while it answers `OutOfSteps`; the answer of the last call is returned as it is (its
    `steps_consumed` is that of the last call only).  The loop has no bound in the code — it spins for ever
    when every call answers `OutOfSteps` — so the model takes the number of calls allowed as fuel; `none` = more
    calls would be needed. -/
def runG (step : T → Action T V E) (n : Nat) : Nat → Runtime T V E → Option (RunResult T V E)
  | 0, _ => none
  | fuel + 1, r =>
    match (runN step n r).status with
    | .outOfSteps => runG step n fuel (runN step n r).rt
    | _ => some (runN step n r)

/-- An embedder with host functions: one entry per `run_n_steps` call — the budget and whether the
    pending host calls are serviced after the call (`false` = the host is slow: it calls again first).
    It stops at the call in which the main thread finishes or is reported failed.
    Result: host state (e.g. the output so far), runtime, total `steps_consumed`, status of the last call. -/
def drive {H : Type} (step : T → Action T V E) (host : H → Nat → T → H × T) :
    List (Nat × Bool) → H → Runtime T V E → Nat → H × Runtime T V E × Nat × Option (Status E)
  | [], h, r, n => (h, r, n, none)
  | (b, sv) :: rest, h, r, n =>
    let x := runN step b r
    match x.status with
    | .done => (h, x.rt, n + x.steps, some .done)
    | .mainError e => (h, x.rt, n + x.steps, some (.mainError e))
    | st =>
      match rest with
      | [] => (if sv then (serviceAll host h x.rt).1 else h, if sv then (serviceAll host h x.rt).2 else x.rt,
               n + x.steps, some st)
      | _ =>
        if sv then drive step host rest (serviceAll host h x.rt).1 (serviceAll host h x.rt).2 (n + x.steps)
        else drive step host rest h x.rt (n + x.steps)

/-- The reference embedder: service whatever is pending, then `run_n_steps(1)`. -/
def tick {H : Type} (step : T → Action T V E) (host : H → Nat → T → H × T) (x : H × Runtime T V E) :
    H × Runtime T V E :=
  ((serviceAll host x.1 x.2).1, (runN step 1 (serviceAll host x.1 x.2).2).rt)

/-- `n` instructions under the reference embedder -/
def canon {H : Type} (step : T → Action T V E) (host : H → Nat → T → H × T) :
    Nat → H × Runtime T V E → H × Runtime T V E
  | 0, x => x
  | n + 1, x => canon step host n (tick step host x)

end
end Abra.Sched
