import AbraModel.Int64
/-!
# M12/M8 `assignDecision` — what the front end does with an assignment statement

Follows `generate_constraints_stmt (StmtKind::Assign)` in statics/typecheck.rs together with
`record_pat_mutability` (statics/resolve.rs) for the accept/diagnostic decision, and
`translate_stmt (StmtKind::Assign)` in translate_bytecode.rs for what happens afterwards (the
emitted store, or the compiler panic when the variable is not in the function's offset table).

D19 as repaired in /repo (aafbeaf): `for` and `match` bindings have no `pat_is_mutable` entry and
count as immutable.  D20 as it is: a variable captured by a lambda is not in the lambda's offset
table, the checker knows nothing about captures, the compiler panics.
-/
namespace Abra.Assign

/-- how the assigned name was bound -/
inductive Base where
  | letB       -- let x = …            (pat_is_mutable = false)
  | varB       -- var x = …            (pat_is_mutable = true)
  | forB       -- for x in …           (pattern, no pat_is_mutable entry)
  | matchB     -- match … { x -> … }   (pattern, no pat_is_mutable entry)
  | paramB     -- fn f(x) …            (Declaration::Var of an identifier node, not a pattern)
  | lamParamB  -- (x) -> …             (same)
deriving DecidableEq, Repr

/-- the left-hand side of an assignment -/
inductive Target where
  | name (b : Base) (captured : Bool)   -- a variable; `captured`: the assignment sits in a lambda
                                        -- (or task) that captures the variable from outside
  | elem                                -- a[i]    (ExprKind::IndexAccess)
  | field                               -- s.f     (ExprKind::MemberAccess)
  | nonVar                              -- a name that resolves to a function / type / …
deriving DecidableEq, Repr

inductive AOp where
  | eq | add | sub | mul | div | mod
deriving DecidableEq, Repr

inductive Decision where
  | accept          -- compiles; the store takes effect
  | diagImmutable   -- "Can't modify immutable variable. Try using `var` instead of `let`"
  | diagNotVar      -- "Can't assign to this. Must assign to a variable defined with `var` keyword"
  | crash           -- accepted by the checker, the compiler panics
deriving DecidableEq, Repr

/-- `ctx.pat_is_mutable.get(&pat.id).copied().unwrap_or(false)` for a pattern node;
    `none` when the declaration node is not a pattern (parameters) -/
def patMutable : Base → Option Bool
  | .letB => some false
  | .varB => some true
  | .forB => some false      -- no entry → unwrap_or(false)
  | .matchB => some false    -- no entry → unwrap_or(false)
  | .paramB => none
  | .lamParamB => none

/-- the checker (`generate_constraints_stmt`, first block of the `Assign` case) -/
def checker : Target → Decision
  | .name b _ =>
    match patMutable b with
    | some false => .diagImmutable
    | _ => .accept
  | .elem => .accept
  | .field => .accept
  | .nonVar => .diagNotVar

/-- the compiler: `offset_table.get(&node.id()).unwrap()` fails for a captured variable -/
def compilerPanics : Target → Bool
  | .name _ captured => captured
  | _ => false

/-- the decision table; the operator plays no role in it -/
def assignDecision (t : Target) (_op : AOp) : Decision :=
  match checker t with
  | .accept => if compilerPanics t then .crash else .accept
  | d => d

/-! ### the emitted store for a variable (F0): `x = e` / `x op= e` -/

inductive Instr where
  | loadOffset (i : Nat)
  | push (v : Int)           -- the already evaluated right-hand side
  | arith (op : Abra.I64.Op)
  | storeOffset (i : Nat)
deriving Repr

def AOp.arith? : AOp → Option Abra.I64.Op
  | .eq => none
  | .add => some .add | .sub => some .sub | .mul => some .mul | .div => some .div | .mod => some .mod

/-- `translate_stmt`: `Equal` → rhs; StoreOffset.  Compound → LoadOffset; rhs; op; StoreOffset -/
def assignCode (op : AOp) (idx : Nat) (rhs : Int) : List Instr :=
  match op.arith? with
  | none => [.push rhs, .storeOffset idx]
  | some a => [.loadOffset idx, .push rhs, .arith a, .storeOffset idx]

inductive Outcome where
  | ok (frame : List Int) (stack : List Int)
  | err (e : Abra.I64.Out)     -- runtime error of the arithmetic instruction
  | fault                      -- malformed code (never produced by `assignCode` on a valid slot)
deriving Repr

def step (frame stack : List Int) : Instr → Outcome
  | .loadOffset i =>
    match frame[i]? with
    | some v => .ok frame (v :: stack)
    | none => .fault
  | .push v => .ok frame (v :: stack)
  | .arith op =>
    match stack with
    | b :: a :: rest =>
      match Abra.I64.apply op a b with
      | .val n => .ok frame (n :: rest)
      | e => .err e
    | _ => .fault
  | .storeOffset i =>
    match stack with
    | v :: rest => if i < frame.length then .ok (frame.set i v) rest else .fault
    | [] => .fault

def run (frame stack : List Int) : List Instr → Outcome
  | [] => .ok frame stack
  | i :: is =>
    match step frame stack i with
    | .ok f s => run f s is
    | o => o

/-- the value the variable holds afterwards, as the language defines the operator -/
def newValue (op : AOp) (old rhs : Int) : Abra.I64.Out :=
  match op.arith? with
  | none => .val rhs
  | some a => Abra.I64.apply a old rhs

end Abra.Assign
