import AbraModel.Int64
/-!
# M12/M8 `assignDecision` — what the front end does with an assignment statement

Follows `generate_constraints_stmt (StmtKind::Assign)` in statics/typecheck.rs together with
`record_pat_mutability` (statics/resolve.rs) for the accept/diagnostic decision, and
`translate_stmt (StmtKind::Assign)` in translate_bytecode.rs for what happens afterwards (the
emitted store, or the compiler panic when the variable is not in the function's offset table).

D19 as repaired in /repo (aafbeaf): `for` and `match` bindings have no `pat_is_mutable` entry and
count as immutable.  D20 as repaired (fdfd074): when the assigned variable is bound outside the
innermost enclosing lambda or task the checker reports "Can't modify captured variable" (after the
immutability test).  `oldDecision` keeps the table of the code before that repair, where such an
assignment passed the checker and the compiler panicked on the missing offset-table entry.
-/
namespace Abra.Assign

/-- how the assigned name was bound -/
inductive Base where
  | letB       -- let x = …            (pat_is_mutable = false)
  | varB       -- var x = …            (pat_is_mutable = true)
  | forB       -- for x in …           (pattern, no pat_is_mutable entry)
  | matchB     -- match … { x -> … }   (pattern, no pat_is_mutable entry)
  | paramB     -- fn f(x) …            (Declaration::Var of an identifier node, not a pattern)
  | lamParamB  -- (x) -> …             (same)
deriving DecidableEq, Repr

/-- the left-hand side of an assignment -/
inductive Target where
  | name (b : Base) (captured : Bool)   -- a variable; `captured`: the variable is bound outside the
                                        -- innermost lambda or task enclosing the assignment
  | elem                                -- a[i]    (ExprKind::IndexAccess)
  | field                               -- s.f     (ExprKind::MemberAccess)
  | nonVar                              -- a name that resolves to a function / type / …
deriving DecidableEq, Repr

inductive AOp where
  | eq | add | sub | mul | div | mod
deriving DecidableEq, Repr

inductive Decision where
  | accept          -- compiles; the store takes effect
  | diagImmutable   -- "Can't modify immutable variable. Try using `var` instead of `let`"
  | diagNotVar      -- "Can't assign to this. Must assign to a variable defined with `var` keyword"
  | diagCaptured    -- "Can't modify captured variable. A lambda or task gets a copy of the variables it uses"
  | crash           -- accepted by the checker, the compiler panics (only in `oldDecision`)
deriving DecidableEq, Repr

/-- `ctx.pat_is_mutable.get(&pat.id).copied().unwrap_or(false)` for a pattern node;
    `none` when the declaration node is not a pattern (parameters) -/
def patMutable : Base → Option Bool
  | .letB => some false
  | .varB => some true
  | .forB => some false      -- no entry → unwrap_or(false)
  | .matchB => some false    -- no entry → unwrap_or(false)
  | .paramB => none
  | .lamParamB => none

/-- the checker (`generate_constraints_stmt`, first block of the `Assign` case):
    immutable pattern → diagnostic; else bound outside the enclosing lambda/task → diagnostic -/
def checker : Target → Decision
  | .name b captured =>
    match patMutable b with
    | some false => .diagImmutable
    | _ => if captured then .diagCaptured else .accept
  | .elem => .accept
  | .field => .accept
  | .nonVar => .diagNotVar

/-- the decision table; the operator plays no role in it, and whatever the checker accepts
    compiles (every accepted variable is in the function's own offset table) -/
def assignDecision (t : Target) (_op : AOp) : Decision := checker t

/-- the table before fdfd074: no capture test in the checker, and
    `offset_table.get(&node.id()).unwrap()` fails in the compiler for a captured variable -/
def oldDecision (t : Target) (_op : AOp) : Decision :=
  match t with
  | .name b captured =>
    match patMutable b with
    | some false => .diagImmutable
    | _ => if captured then .crash else .accept
  | .elem => .accept
  | .field => .accept
  | .nonVar => .diagNotVar

/-! ### `record_pat_mutability`: the `let` / `var` flag reaches every binding of the pattern -/

/-- patterns as `record_pat_mutability` sees them (pattern node ids stand for the bindings) -/
inductive Pat where
  | wild                          -- `_`, literals
  | bind (id : Nat)               -- `x`
  | tuple (elems : List Pat)
  | variant (data : List Pat)     -- positional or named payload, or none
  | struct (fields : List Pat)
  | or (l r : Pat)

mutual
/-- the entries `record_pat_mutability(ctx, pat, is_mutable)` inserts into `pat_is_mutable` -/
def recordPat (isMutable : Bool) : Pat → List (Nat × Bool)
  | .wild => []
  | .bind id => [(id, isMutable)]
  | .tuple es => recordPats isMutable es
  | .variant ds => recordPats isMutable ds
  | .struct fs => recordPats isMutable fs
  | .or l r => recordPat isMutable l ++ recordPat isMutable r

def recordPats (isMutable : Bool) : List Pat → List (Nat × Bool)
  | [] => []
  | p :: ps => recordPat isMutable p ++ recordPats isMutable ps
end

mutual
/-- the bindings a pattern introduces -/
def binders : Pat → List Nat
  | .wild => []
  | .bind id => [id]
  | .tuple es => bindersList es
  | .variant ds => bindersList ds
  | .struct fs => bindersList fs
  | .or l r => binders l ++ binders r

def bindersList : List Pat → List Nat
  | [] => []
  | p :: ps => binders p ++ bindersList ps
end

/-! ### the emitted store for a variable (F0): `x = e` / `x op= e` -/

inductive Instr where
  | loadOffset (i : Nat)
  | push (v : Int)           -- the already evaluated right-hand side
  | arith (op : Abra.I64.Op)
  | storeOffset (i : Nat)
deriving Repr

def AOp.arith? : AOp → Option Abra.I64.Op
  | .eq => none
  | .add => some .add | .sub => some .sub | .mul => some .mul | .div => some .div | .mod => some .mod

/-- `translate_stmt`: `Equal` → rhs; StoreOffset.  Compound → LoadOffset; rhs; op; StoreOffset -/
def assignCode (op : AOp) (idx : Nat) (rhs : Int) : List Instr :=
  match op.arith? with
  | none => [.push rhs, .storeOffset idx]
  | some a => [.loadOffset idx, .push rhs, .arith a, .storeOffset idx]

inductive Outcome where
  | ok (frame : List Int) (stack : List Int)
  | err (e : Abra.I64.Out)     -- runtime error of the arithmetic instruction
  | fault                      -- malformed code (never produced by `assignCode` on a valid slot)
deriving Repr

def step (frame stack : List Int) : Instr → Outcome
  | .loadOffset i =>
    match frame[i]? with
    | some v => .ok frame (v :: stack)
    | none => .fault
  | .push v => .ok frame (v :: stack)
  | .arith op =>
    match stack with
    | b :: a :: rest =>
      match Abra.I64.apply op a b with
      | .val n => .ok frame (n :: rest)
      | e => .err e
    | _ => .fault
  | .storeOffset i =>
    match stack with
    | v :: rest => if i < frame.length then .ok (frame.set i v) rest else .fault
    | [] => .fault

def run (frame stack : List Int) : List Instr → Outcome
  | [] => .ok frame stack
  | i :: is =>
    match step frame stack i with
    | .ok f s => run f s is
    | o => o

/-- the value the variable holds afterwards, as the language defines the operator -/
def newValue (op : AOp) (old rhs : Int) : Abra.I64.Out :=
  match op.arith? with
  | none => .val rhs
  | some a => Abra.I64.apply a old rhs

end Abra.Assign
