/-
M14a — the bump allocator `utils/src/arena.rs` (`Arena::with_capacity`, `Arena::alloc`) as a pure
function on an explicit buffer list.  A buffer is (base address, length); the base address of a
fresh buffer is chosen by the environment (Rust's global allocator: `Box::new_uninit_slice` has
alignment 1, so *any* address may come back) and is therefore a parameter of every request.
Import-free: this file is linked into the model driver.
-/
namespace Abra.Arena

/-- `Box<[MaybeUninit<u8>]>`: where it lives and how long it is. -/
structure Buf where
  base : Nat
  len : Nat
  deriving Repr, DecidableEq, Inhabited

/-- `ArenaInner`: `current_buf`, `old_bufs` (oldest first, `Vec::push`), `offset`. -/
structure State where
  cur : Buf
  old : List Buf
  offset : Nat
  deriving Repr, DecidableEq, Inhabited

/-- `Arena::with_capacity(cap)`; `base` is the address the allocator returned. -/
def withCapacity (base cap : Nat) : State := ⟨⟨base, cap⟩, [], 0⟩

/-- All buffers the arena owns, retired ones first; the id of a buffer is its index in this list,
    the current buffer is the last one. -/
def State.bufs (s : State) : List Buf := s.old ++ [s.cur]

/-- bytes to skip so that `addr + padding` is a multiple of `align`
    (`(align - addr % align) % align` in the code, computed on the real address). -/
def padding (addr align : Nat) : Nat := (align - addr % align) % align

/-- capacity of the replacement buffer: double the previous one, and room for one value of the
    requested size wherever the allocator puts the buffer (worst-case padding `align - 1`). -/
def newCap (len size align : Nat) : Nat := max (2 * len) (size + (align - 1))

/-- Where one allocation went. -/
structure Placement where
  buf : Nat      -- buffer id (index in `State.bufs`, stable for the arena's life)
  start : Nat    -- byte offset inside that buffer
  size : Nat
  align : Nat
  deriving Repr, DecidableEq, Inhabited

/-- One allocation request: `size_of::<T>()`, `align_of::<T>()` and the base address the allocator
    would hand out if a new buffer is needed now. -/
structure Req where
  size : Nat
  align : Nat
  fresh : Nat
  deriving Repr, DecidableEq, Inhabited

/-- `Arena::alloc` (repaired, D14): pad from the real address; when the value does not fit, retire
    the current buffer, start a new one that is large enough, *restart the offset at 0* and pad
    from the new buffer's address. -/
def alloc (s : State) (r : Req) : State × Placement :=
  let pad := padding (s.cur.base + s.offset) r.align
  if s.offset + pad + r.size > s.cur.len then
    let nb : Buf := ⟨r.fresh, newCap s.cur.len r.size r.align⟩
    let pad' := padding r.fresh r.align
    (⟨nb, s.old ++ [s.cur], pad' + r.size⟩, ⟨s.old.length + 1, pad', r.size, r.align⟩)
  else
    (⟨s.cur, s.old, s.offset + pad + r.size⟩, ⟨s.old.length, s.offset + pad, r.size, r.align⟩)

/-- A whole history: the final state and the placements in request order. -/
def run : State → List Req → State × List Placement
  | s, [] => (s, [])
  | s, r :: rs =>
    let (s1, p) := alloc s r
    let (s2, ps) := run s1 rs
    (s2, p :: ps)

end Abra.Arena
