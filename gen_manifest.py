#!/usr/bin/env python3
"""Regenerate MANIFEST.json from props.py (keeps it valid at all times)."""
import json, os, subprocess
ROOT = os.path.dirname(os.path.abspath(__file__))
import sys
sys.path.insert(0, ROOT)
from props import PROPS, NOT_APPLICABLE
HOOK_COMMITS = subprocess.run(["git", "-C", "/repo", "log", "--format=%h %s", "--grep", "^verif hook"],
                              capture_output=True, text=True).stdout.strip().splitlines()
HOOK_COMMITS = [l.split(" ")[0] for l in reversed(HOOK_COMMITS)]

all_ids = [json.loads(l)["id"] for l in open(os.path.join(ROOT, "properties.jsonl"))]
checks = []
for pid in all_ids:
    if pid not in PROPS:
        continue
    c = PROPS[pid]
    checks.append({
        "property_id": pid,
        "quick_cmd": "./check %s --tier quick" % pid,
        "thorough_cmd": "./check %s --tier thorough" % pid,
        "evidence_file": "/verif/evidence/%s.json" % pid,
        "replay_cmd_template": "./check %s --replay {path}" % pid,
        "engine": "lean4-proof+correspondence",
        "level_claimed": {"category": "proof", "text": c["level_text"], "design_ref": c["design_ref"]},
        "level_note": c["level_note"],
        "technique": c["technique"],
    })
na = []
for pid in all_ids:
    if pid not in PROPS:
        na.append({"property_id": pid, "reason": NOT_APPLICABLE.get(pid, "no theorem built yet for this property in the time used so far; not claimed (Lean proof + correspondence is applicable, see DESIGN.md §6)")})
m = {
    "version": 1,
    "setup_cmd": "./check --setup",
    "hooks": {
        "guard": "--cfg abra_verif",
        "enable": "RUSTFLAGS='--cfg abra_verif' via /verif/harness/.cargo/config.toml (the harness builds the real crates by path dependency into /verif/harness/target)",
        "baseline_off_cmd": "cd /repo && cargo nextest run --workspace --no-fail-fast --tool-config-file pb:/w/lib/nextest.toml --profile pb --test-threads 8 --offline || cargo test --workspace --no-fail-fast --offline",
        "source_commits": HOOK_COMMITS,
        "add_only": True,
    },
    "engines": [
        {"name": "lean4-proof+correspondence", "path": "/verif/check",
         "serves_properties": [c["property_id"] for c in checks],
         "kind_free_text": "Lean 4 theorems about hand-written executable models (/verif/lean) + differential correspondence harness against the real crates (/verif/harness); driver /verif/check"},
    ],
    "checks": checks,
    "not_applicable": na,
    "notes": "See DESIGN.md. known_findings.json lists recorded and fixed defects.",
}
json.dump(m, open(os.path.join(ROOT, "MANIFEST.json"), "w"), indent=1)
print("claimed:", len(checks), "unclaimed:", len(na))
